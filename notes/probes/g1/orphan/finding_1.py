"""finding 1 - commit 293b449 re-opens, for a summarised context, the defect that a3ddc98 closed.

Property C10: "... a still-running orphaned branch is stopped at its next durable operation before
that operation's user function runs."  a3ddc98 lists "a child context ... whose summarised body runs
again" among the resumed operations that must not reach their user code in an orphaned branch.

293b449 (operation/base.py: OperationExecutor.process) stopped asking ExecutionState.raise_if_orphaned()
whenever the operation's record is SUCCEEDED.  That exemption is needed for a live branch that traverses
its own completed summarised contexts again, but it is unconditional: an ORPHANED branch that reaches a
context recorded SUCCEEDED in ReplayChildren mode runs the context body (user code) again although the
parallel that owns the branch was handed - and has been acknowledged - its completion record.

Scenario (two invocations, real durable_execution wrapper, in-memory backend):
  invocation 1: parallel P (min_successful=1)
                  branch 0: waits for a callback                                -> suspended
                  branch 1: step s1, child context X (result > 256 KB, recorded
                            SUCCEEDED + ReplayChildren), wait of one hour       -> suspended
                -> PENDING
  the callback is delivered
  invocation 2: branch 0 completes -> P completes (SUCCEED recorded and acknowledged; ctx.parallel returns).
                branch 1 is still in plain user code at that moment (it waits for the event that the
                handler sets AFTER ctx.parallel() returned).  Its next durable operation is X.
  expected    : branch 1 is stopped at X, before X's body runs
  observed    : X's body runs in the orphaned branch (it ran neither at 293b449^ nor must it by C10)

Run:  PYTHONPATH=/tmp/wt/g1_orphan/src /venv/bin/python finding_1.py
"""

from __future__ import annotations

import dataclasses
import datetime
import logging
import os
import sys
import threading

from aws_durable_execution_sdk_python.config import (
    CompletionConfig,
    Duration,
    ParallelConfig,
)
from aws_durable_execution_sdk_python.execution import (
    DurableExecutionInvocationInputWithClient,
    InitialExecutionState,
    durable_execution,
)
from aws_durable_execution_sdk_python.lambda_service import (
    CallbackDetails,
    CheckpointOutput,
    CheckpointUpdatedExecutionState,
    ContextDetails,
    ExecutionDetails,
    Operation,
    OperationAction,
    OperationStatus,
    OperationType,
    StateOutput,
    StepDetails,
    WaitDetails,
)

logging.disable(logging.CRITICAL)
UTC = datetime.timezone.utc


class FakeBackend:
    """Records every update and plays the resulting operations back as history."""

    def __init__(self) -> None:
        self.lock = threading.RLock()
        self.ops: dict[str, Operation] = {}
        self.log: list = []
        self.calls = 0
        self.ops["exec"] = Operation(
            operation_id="exec",
            operation_type=OperationType.EXECUTION,
            status=OperationStatus.STARTED,
            execution_details=ExecutionDetails(input_payload="{}"),
        )

    def checkpoint(self, durable_execution_arn, checkpoint_token, updates, client_token):
        with self.lock:
            self.calls += 1
            touched = []
            for u in updates:
                self.log.append(u)
                self._apply(u)
                touched.append(self.ops[u.operation_id])
            return CheckpointOutput(
                checkpoint_token=f"tok-{self.calls}",
                new_execution_state=CheckpointUpdatedExecutionState(
                    operations=touched, next_marker=None
                ),
            )

    def get_execution_state(self, durable_execution_arn, checkpoint_token, next_marker, max_items=1000):
        return StateOutput(operations=[], next_marker=None)

    def _apply(self, u) -> None:
        old = self.ops.get(u.operation_id)
        base = dict(
            operation_id=u.operation_id,
            operation_type=u.operation_type,
            parent_id=u.parent_id or (old.parent_id if old else None),
            name=u.name or (old.name if old else None),
            sub_type=u.sub_type or (old.sub_type if old else None),
        )
        t, a = u.operation_type, u.action
        if t is OperationType.CONTEXT:
            if a is OperationAction.START:
                op = Operation(status=OperationStatus.STARTED, **base)
            elif a is OperationAction.SUCCEED:
                op = Operation(
                    status=OperationStatus.SUCCEEDED,
                    context_details=ContextDetails(
                        replay_children=bool(
                            u.context_options and u.context_options.replay_children
                        ),
                        result=u.payload,
                    ),
                    **base,
                )
            else:
                op = Operation(
                    status=OperationStatus.FAILED,
                    context_details=ContextDetails(error=u.error),
                    **base,
                )
        elif t is OperationType.STEP:
            if a is OperationAction.START:
                op = Operation(status=OperationStatus.STARTED, step_details=StepDetails(), **base)
            elif a is OperationAction.SUCCEED:
                op = Operation(
                    status=OperationStatus.SUCCEEDED,
                    step_details=StepDetails(attempt=1, result=u.payload),
                    **base,
                )
            else:
                raise AssertionError(f"unexpected step action {a}")
        elif t is OperationType.WAIT:
            op = Operation(
                status=OperationStatus.STARTED,
                wait_details=WaitDetails(
                    scheduled_end_timestamp=datetime.datetime.now(UTC)
                    + datetime.timedelta(seconds=u.wait_options.wait_seconds)
                ),
                **base,
            )
        elif t is OperationType.CALLBACK:
            op = Operation(
                status=OperationStatus.STARTED,
                callback_details=CallbackDetails(callback_id="cb-1"),
                **base,
            )
        else:
            raise AssertionError(f"unexpected operation type {t}")
        self.ops[u.operation_id] = op

    def complete_callback(self, name: str) -> None:
        with self.lock:
            for op in self.ops.values():
                if op.name == name:
                    self.ops[op.operation_id] = dataclasses.replace(
                        op,
                        status=OperationStatus.SUCCEEDED,
                        callback_details=CallbackDetails(callback_id="cb-1", result='"go"'),
                    )
                    return
        raise KeyError(name)

    def invocation_input(self):
        with self.lock:
            return DurableExecutionInvocationInputWithClient(
                durable_execution_arn="arn:test",
                checkpoint_token=f"tok-{self.calls}",
                initial_execution_state=InitialExecutionState(
                    operations=list(self.ops.values()), next_marker=""
                ),
                service_client=self,
            )

    def status_of(self, name: str) -> str:
        return next(op.status.value for op in self.ops.values() if op.name == name)


def invoke(handler, backend: FakeBackend, timeout: float = 30.0):
    box: dict = {}

    def target() -> None:
        try:
            box["out"] = handler(backend.invocation_input(), None)
        except BaseException as e:  # noqa: BLE001
            box["err"] = e

    t = threading.Thread(target=target, daemon=True)
    t.start()
    t.join(timeout)
    assert not t.is_alive(), "the invocation did not return (hang)"
    assert "err" not in box, f"the invocation raised {box.get('err')!r}"
    return box["out"]


def main() -> int:
    backend = FakeBackend()
    invocation = {"n": 0}
    parallel_returned = threading.Event()  # set by the handler after ctx.parallel() returned
    branch1_left = threading.Event()
    body_runs: list[tuple[int, bool]] = []  # (invocation, was P already complete?)

    def big_body(c):
        body_runs.append((invocation["n"], parallel_returned.is_set()))
        c.step(lambda _: "v", name="sx")
        return "x" * 300_000  # > 256 KB: X is recorded as a summary (ReplayChildren)

    def branch0(c):
        return c.create_callback(name="cb").result()

    def branch1(c):
        try:
            c.step(lambda _: 1, name="s1")
            if invocation["n"] == 2:
                # plain user code that is still running while the parallel completes
                assert parallel_returned.wait(20), "P never completed"
            big = c.run_in_child_context(big_body, name="X")  # next durable operation
            c.wait(Duration.from_seconds(3600), name="w")
            return len(big)
        finally:
            branch1_left.set()

    @durable_execution
    def handler(event, ctx):
        result = ctx.parallel(
            [branch0, branch1],
            name="P",
            config=ParallelConfig(completion_config=CompletionConfig(min_successful=1)),
        )
        parallel_returned.set()
        return result.success_count

    # invocation 1: both branches park
    invocation["n"] = 1
    out = invoke(handler, backend)
    assert out["Status"] == "PENDING", out
    assert backend.status_of("X") == "SUCCEEDED"
    x_op = next(op for op in backend.ops.values() if op.name == "X")
    assert x_op.context_details.replay_children, "X should have been summarised"
    assert body_runs == [(1, False)], body_runs

    # the awaited callback arrives, the backend invokes again
    backend.complete_callback("cb")
    invocation["n"] = 2
    n_updates = len(backend.log)
    out = invoke(handler, backend)
    assert out["Status"] == "SUCCEEDED", out
    assert backend.status_of("P") == "SUCCEEDED"
    assert branch1_left.wait(10), "the orphaned branch never left"

    sent = [(u.name, u.action.value) for u in backend.log[n_updates:]]
    assert sent[-1] == ("P", "SUCCEED"), sent  # nothing of the orphaned branch reached the backend

    orphan_runs = [r for r in body_runs if r[0] == 2]
    assert not orphan_runs, (
        "C10 violated: the body of the summarised child context X (user code) ran in branch 1 "
        f"AFTER the parallel P had been handed its completion record: {orphan_runs} "
        "(invocation, P-already-complete). OperationExecutor.process() skips "
        "raise_if_orphaned() for every operation recorded SUCCEEDED (293b449)."
    )
    print("ok: the orphaned branch was stopped before the summarised context body ran")
    return 0


if __name__ == "__main__":
    try:
        rc = main()
    except AssertionError as e:
        print(f"FINDING 1 REPRODUCED: {e}", file=sys.stderr)
        rc = 1
    sys.stdout.flush()
    sys.stderr.flush()
    os._exit(rc)  # left-behind branch threads must not keep the interpreter alive
