"""legit in-process re-traversal by the resume timer (scenario of 293b449 / 728d12e)."""
import os, sys, threading, time, logging
sys.path.insert(0, os.path.dirname(__file__))
from fake import FakeBackend, run_with_timeout
from aws_durable_execution_sdk_python.config import (
    CompletionConfig, Duration, ParallelConfig, StepConfig, ChildConfig, MapConfig,
)
from aws_durable_execution_sdk_python.execution import durable_execution

logging.disable(logging.CRITICAL)
be = FakeBackend()
release_b0 = threading.Event()
counts = {}


def bump(k):
    counts[k] = counts.get(k, 0) + 1


def inner_y(c):
    bump("Y-body")
    c.step(lambda _: bump("sy"), name="sy")
    return "y" * 300_000


def big_body(c):
    bump("X-body")
    c.step(lambda _: bump("sx"), name="sx")
    cb = c.create_callback(name="open-cb")  # handed out, never awaited
    y = c.run_in_child_context(inner_y, name="Y")
    # inner map with a summarised result, and an inner parallel with early completion
    m = c.map([1, 2], lambda cc, item, i, items: cc.step(lambda _: "z" * 200_000, name=f"ms{i}"), name="IM")
    return "x" * 300_000


def b0(c):
    def slow(_):
        assert release_b0.wait(20)
        return 0
    return c.step(slow, name="s0")


def b1(c):
    bump("b1-body")
    big = c.run_in_child_context(big_body, name="X")
    c.wait(Duration.from_seconds(1), name="w")
    bump("b1-after-wait")
    release_b0.set()
    return len(big)


@durable_execution
def handler(event, ctx):
    r = ctx.parallel([b0, b1], name="P")
    return [r.success_count, r.failure_count]


st = run_with_timeout(lambda: handler(be.invocation_input(), None), 30)
print(st)
print(counts)
names = [(u.name, u.action.value) for _, u in be.log]
print(len(names), names)
dups = {n for n in names if names.count(n) > 1}
print("dups", dups)
os._exit(0)
