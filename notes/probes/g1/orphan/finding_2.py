"""finding 2 - commit a3ddc98: the read-only orphan query leaves a nested map/parallel blocked for ever.

a3ddc98 makes OperationExecutor.process() (operation/base.py) raise OrphanedChildException - through the
new ExecutionState.raise_if_orphaned() - for a RESUMED operation (child context / step / wait_for_condition
found STARTED) of an orphaned branch.  The only consumer of that exception is
ConcurrentExecutor._on_task_complete() (concurrency/executor.py), which "just logs and exits - no state
change needed": the branch stays RUNNING.  That is harmless for the executor whose completion orphaned the
branch (its execute() has returned), but NOT for a map/parallel that runs INSIDE the orphaned branch: its
execute() waits on _completion_event, a branch that is RUNNING for ever never lets the counters complete or
suspend, so the thread of the orphaned outer branch blocks for ever in execute(), the TimerScheduler thread of
the nested executor keeps polling 10 times a second for ever, and the worker thread of the nested pool stays
behind as well.  In a warm Lambda sandbox these threads pile up invocation after invocation (and a local
process can no longer exit: concurrent.futures joins its workers at interpreter shutdown).

Before a3ddc98 the same input left nothing behind: the resumed inner branch ran up to its callback.result(),
parked, the nested parallel saw "all branches parked", raised SuspendExecution and the orphaned thread
unwound.  (It did run user code of the orphaned branch - the defect a3ddc98 set out to close - so the repair
is right in intent; it is the stop that is not carried through the nested executor.)

Scenario (two invocations, real durable_execution wrapper, in-memory backend):
  invocation 1: parallel M (min_successful=1)
                  branch 0: waits for callback cbA
                  branch 1: parallel P2 (max_concurrency=1)
                              inner 0: child context Y0 { create_callback cb20; cb20.result() }
                              inner 1: child context Y1 { create_callback cb21; cb21.result() }
                -> everything parked -> PENDING
  cbA is delivered
  invocation 2: branch 0 completes -> M completes -> SUCCEEDED is returned.
                branch 1 replays into P2; inner 0 is in plain user code while M completes, then parks on
                cb20; inner 1 (queued behind it, max_concurrency=1) is a child context found STARTED:
                the query raises OrphanedChildException -> inner 1 stays RUNNING -> P2.execute() never returns.
  expected    : a few seconds after the invocation has returned no SDK thread of it is left
  observed    : 3 threads are left for ever (branch 1 blocked in ConcurrentExecutor.execute, P2's timer
                loop, P2's pool worker)

Run:  PYTHONPATH=/tmp/wt/g1_orphan/src /venv/bin/python finding_2.py
"""

from __future__ import annotations

import dataclasses
import logging
import os
import sys
import threading
import time
import traceback

from aws_durable_execution_sdk_python.config import CompletionConfig, ParallelConfig
from aws_durable_execution_sdk_python.execution import (
    DurableExecutionInvocationInputWithClient,
    InitialExecutionState,
    durable_execution,
)
from aws_durable_execution_sdk_python.lambda_service import (
    CallbackDetails,
    CheckpointOutput,
    CheckpointUpdatedExecutionState,
    ContextDetails,
    ExecutionDetails,
    Operation,
    OperationAction,
    OperationStatus,
    OperationType,
    StateOutput,
)

logging.disable(logging.CRITICAL)


class FakeBackend:
    """Records every update and plays the resulting operations back as history."""

    def __init__(self) -> None:
        self.lock = threading.RLock()
        self.ops: dict[str, Operation] = {}
        self.log: list = []
        self.calls = 0
        self.ops["exec"] = Operation(
            operation_id="exec",
            operation_type=OperationType.EXECUTION,
            status=OperationStatus.STARTED,
            execution_details=ExecutionDetails(input_payload="{}"),
        )

    def checkpoint(self, durable_execution_arn, checkpoint_token, updates, client_token):
        with self.lock:
            self.calls += 1
            touched = []
            for u in updates:
                self.log.append(u)
                self._apply(u)
                touched.append(self.ops[u.operation_id])
            return CheckpointOutput(
                checkpoint_token=f"tok-{self.calls}",
                new_execution_state=CheckpointUpdatedExecutionState(
                    operations=touched, next_marker=None
                ),
            )

    def get_execution_state(self, durable_execution_arn, checkpoint_token, next_marker, max_items=1000):
        return StateOutput(operations=[], next_marker=None)

    def _apply(self, u) -> None:
        old = self.ops.get(u.operation_id)
        base = dict(
            operation_id=u.operation_id,
            operation_type=u.operation_type,
            parent_id=u.parent_id or (old.parent_id if old else None),
            name=u.name or (old.name if old else None),
            sub_type=u.sub_type or (old.sub_type if old else None),
        )
        t, a = u.operation_type, u.action
        if t is OperationType.CONTEXT:
            if a is OperationAction.START:
                op = Operation(status=OperationStatus.STARTED, **base)
            elif a is OperationAction.SUCCEED:
                op = Operation(
                    status=OperationStatus.SUCCEEDED,
                    context_details=ContextDetails(result=u.payload),
                    **base,
                )
            else:
                op = Operation(
                    status=OperationStatus.FAILED,
                    context_details=ContextDetails(error=u.error),
                    **base,
                )
        elif t is OperationType.CALLBACK:
            op = Operation(
                status=OperationStatus.STARTED,
                callback_details=CallbackDetails(callback_id=f"id-{u.name}"),
                **base,
            )
        else:
            raise AssertionError(f"unexpected operation type {t}")
        self.ops[u.operation_id] = op

    def complete_callback(self, name: str) -> None:
        with self.lock:
            for op in self.ops.values():
                if op.name == name:
                    self.ops[op.operation_id] = dataclasses.replace(
                        op,
                        status=OperationStatus.SUCCEEDED,
                        callback_details=CallbackDetails(
                            callback_id=op.callback_details.callback_id, result='"go"'
                        ),
                    )
                    return
        raise KeyError(name)

    def invocation_input(self):
        with self.lock:
            return DurableExecutionInvocationInputWithClient(
                durable_execution_arn="arn:test",
                checkpoint_token=f"tok-{self.calls}",
                initial_execution_state=InitialExecutionState(
                    operations=list(self.ops.values()), next_marker=""
                ),
                service_client=self,
            )


def invoke(handler, backend: FakeBackend, timeout: float = 30.0):
    box: dict = {}

    def target() -> None:
        try:
            box["out"] = handler(backend.invocation_input(), None)
        except BaseException as e:  # noqa: BLE001
            box["err"] = e

    t = threading.Thread(target=target, daemon=True)
    t.start()
    t.join(timeout)
    assert not t.is_alive(), "the invocation did not return (hang)"
    assert "err" not in box, f"the invocation raised {box.get('err')!r}"
    return box["out"]


def main() -> int:
    backend = FakeBackend()
    invocation = {"n": 0}
    outer_returned = threading.Event()  # set by the handler after ctx.parallel(M) returned
    orphan_user_code: list[str] = []

    def branch0(c):
        return c.create_callback(name="cbA").result()

    def inner0(c):
        def y0(cc):
            cb = cc.create_callback(name="cb20")
            if invocation["n"] == 2:
                # plain user code of the (soon orphaned) branch, still running while M completes
                assert outer_returned.wait(20), "M never completed"
            return cb.result()

        return c.run_in_child_context(y0, name="Y0")

    def inner1(c):
        def y1(cc):
            if invocation["n"] == 2:
                orphan_user_code.append("Y1 body ran after M completed")
            return cc.create_callback(name="cb21").result()

        return c.run_in_child_context(y1, name="Y1")

    def branch1(c):
        result = c.parallel(
            [inner0, inner1], name="P2", config=ParallelConfig(max_concurrency=1)
        )
        return result.success_count

    @durable_execution
    def handler(event, ctx):
        result = ctx.parallel(
            [branch0, branch1],
            name="M",
            config=ParallelConfig(completion_config=CompletionConfig(min_successful=1)),
        )
        outer_returned.set()
        return result.success_count

    # invocation 1: everything parks on callbacks
    invocation["n"] = 1
    out = invoke(handler, backend)
    assert out["Status"] == "PENDING", out
    time.sleep(1.5)
    baseline = set(threading.enumerate())

    # cbA arrives; invocation 2 completes M through branch 0 and orphans branch 1
    backend.complete_callback("cbA")
    invocation["n"] = 2
    out = invoke(handler, backend)
    assert out["Status"] == "SUCCEEDED", out
    # (what a3ddc98 fixed; holds on the current code, reported below for older code)

    # give the left-behind branch plenty of time to run into its next operation and unwind
    deadline = time.time() + 5
    while time.time() < deadline:
        left = [t for t in threading.enumerate() if t not in baseline and t.is_alive()]
        if not left:
            break
        time.sleep(0.2)

    frames = sys._current_frames()
    report = []
    blocked_in_execute = False
    timer_loop_alive = False
    for t in left:
        stack = traceback.extract_stack(frames[t.ident]) if t.ident in frames else []
        where = [f"{os.path.basename(fr.filename)}:{fr.name}" for fr in stack]
        if "executor.py:execute" in where:
            blocked_in_execute = True
        if "executor.py:_timer_loop" in where:
            timer_loop_alive = True
        report.append(f"{t.name}: {' > '.join(where[-4:])}")

    assert not (blocked_in_execute or timer_loop_alive), (
        "thread leak: 5 s after the invocation returned SUCCEEDED the orphaned branch is still "
        "blocked in ConcurrentExecutor.execute() of its nested parallel (and the nested "
        "TimerScheduler keeps polling); they never end:\n    " + "\n    ".join(report)
    )
    if orphan_user_code:
        print(
            "note: no leak, but user code of the orphaned branch ran (behaviour before a3ddc98): "
            f"{orphan_user_code}"
        )
    print("ok: nothing of the invocation is left behind")
    return 0


if __name__ == "__main__":
    try:
        rc = main()
    except AssertionError as e:
        print(f"FINDING 2 REPRODUCED: {e}", file=sys.stderr)
        rc = 1
    sys.stdout.flush()
    sys.stderr.flush()
    os._exit(rc)  # the leaked threads would keep the interpreter from exiting
