"""True orphan in a re-invocation: resumed operations must not run user code (a3ddc98 / 0861339)."""
import os, sys, threading, time, logging
sys.path.insert(0, os.path.dirname(__file__))
from fake import FakeBackend, run_with_timeout
from aws_durable_execution_sdk_python.config import (
    CompletionConfig, Duration, ParallelConfig, StepConfig, ChildConfig, MapConfig, StepSemantics,
)
from aws_durable_execution_sdk_python.retries import RetryDecision
from aws_durable_execution_sdk_python.waits import WaitForConditionDecision, WaitForConditionConfig
from aws_durable_execution_sdk_python.execution import durable_execution
from aws_durable_execution_sdk_python.exceptions import SuspendExecution

logging.disable(logging.CRITICAL)

KIND = sys.argv[1]
NEST = int(sys.argv[2]) if len(sys.argv) > 2 else 0
PAGE = int(sys.argv[3]) if len(sys.argv) > 3 else None

be = FakeBackend(page_size=PAGE)
inv = {"n": 0}
m_done = threading.Event()
ran = []
b1_finished = threading.Event()


class Crash(BaseException):
    pass


def strategy(err, attempt):
    ran.append(("retry-strategy", inv["n"], m_done.is_set(), type(err).__name__))
    return RetryDecision.no_retry()


def op(c):
    if KIND == "step_alo":
        def f(_):
            ran.append(("step-fn", inv["n"], m_done.is_set()))
            if inv["n"] == 1:
                raise Crash()
            return 1
        return c.step(f, name="S", config=StepConfig(step_semantics=StepSemantics.AT_LEAST_ONCE_PER_RETRY, retry_strategy=strategy))
    if KIND == "step_amo":
        def f(_):
            ran.append(("step-fn", inv["n"], m_done.is_set()))
            if inv["n"] == 1:
                raise Crash()
            return 1
        return c.step(f, name="S", config=StepConfig(step_semantics=StepSemantics.AT_MOST_ONCE_PER_RETRY, retry_strategy=strategy))
    if KIND == "wfc":
        def check(s, _):
            ran.append(("check-fn", inv["n"], m_done.is_set()))
            if inv["n"] == 1:
                raise Crash()
            return s + 1
        return c.wait_for_condition(check, WaitForConditionConfig(wait_strategy=lambda s, a: WaitForConditionDecision.stop_polling(), initial_state=0), name="W")
    if KIND == "child":
        def body(cc):
            ran.append(("child-body", inv["n"], m_done.is_set()))
            if inv["n"] == 1:
                raise Crash()
            return 1
        return c.run_in_child_context(body, name="C")
    raise AssertionError(KIND)


def nested(c, depth):
    if depth == 0:
        return op(c)
    return c.run_in_child_context(lambda cc: nested(cc, depth - 1), name=f"N{depth}")


def b0(c):
    cb = c.create_callback(name="cb")
    return cb.result()


def b1(c):
    try:
        c.step(lambda _: 1, name="s1")
        if inv["n"] == 2:
            assert m_done.wait(10)
        return nested(c, NEST)
    finally:
        b1_finished.set()


@durable_execution
def handler(event, ctx):
    try:
        r = ctx.parallel([b0, b1], name="P", config=ParallelConfig(completion_config=CompletionConfig(min_successful=1)))
    except Crash:
        raise
    m_done.set()
    return r.success_count


inv["n"] = 1
# the first invocation "crashes" inside the user function: emulate by raising a BaseException that
# kills the branch; the parallel then reports a fatal error.  All we need is the recorded history.
print(run_with_timeout(lambda: handler(be.invocation_input(), None), 20)[0])
print([(o.name, o.status.value) for o in be.ops.values()])
be.complete_callback("cb")
inv["n"] = 2
ran.clear()
b1_finished.clear()
n_before = len(be.log)
print(run_with_timeout(lambda: handler(be.invocation_input(), None), 20))
b1_finished.wait(5)
time.sleep(0.3)
print("ran:", ran)
print("updates in inv 2:", [(u.name, u.action.value) for _, u in be.log[n_before:]])
os._exit(0)
