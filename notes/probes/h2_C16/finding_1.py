"""C16 finding 1: the 256 KB checkpoint limit is compared with the number of CHARACTERS of the
serialized result, not with its size in bytes.

operation/child.py, ChildOperationExecutor.execute():

    if len(serialized_result) > CHECKPOINT_SIZE_LIMIT:      # len() of a str = code points

The default serializer happens to emit pure ASCII (json.dumps escapes everything else), but a
SerDes is a public extension point (docs/advanced/serialization.md shows e.g. `UpperCaseSerDes`,
which hands the text through unchanged) and PassThroughSerDes ships with the SDK.  A result whose
serialized form contains non-ASCII text - here 200 000 x "é" = 400 000 bytes of UTF-8, i.e. 391 KB -
is "more than the 256 KB checkpoint limit", yet it is written into the SUCCEED record of the
context in full, ReplayChildren stays False and no summary is produced.  The same happens for a
map / parallel whose BatchResult is serialized by a custom `serdes` and for every map iteration /
parallel branch (they all go through the same executor).

Run:  PYTHONPATH=/tmp/wt/h2_C16/src /venv/bin/python finding_1.py
"""

from __future__ import annotations

import json
import sys
import threading
from unittest.mock import Mock

from aws_durable_execution_sdk_python.config import ChildConfig, ParallelConfig
from aws_durable_execution_sdk_python.execution import (
    DurableExecutionInvocationInputWithClient,
    InitialExecutionState,
    durable_execution,
)
from aws_durable_execution_sdk_python.lambda_service import (
    CheckpointOutput,
    CheckpointUpdatedExecutionState,
    ContextDetails,
    ExecutionDetails,
    Operation,
    OperationAction,
    OperationStatus,
    OperationType,
    StepDetails,
)
from aws_durable_execution_sdk_python.serdes import SerDes, SerDesContext

CHECKPOINT_LIMIT_BYTES = 256 * 1024


class Utf8JsonSerDes(SerDes):
    """A perfectly ordinary custom SerDes: JSON that keeps text readable (no \\uXXXX escapes)."""

    def serialize(self, value, serdes_context: SerDesContext) -> str:
        return json.dumps(value, ensure_ascii=False)

    def deserialize(self, data: str, serdes_context: SerDesContext):
        return json.loads(data)


class Backend:
    """In-memory stand-in for the durable execution service: records every update."""

    def __init__(self):
        self.updates = []
        self.ops = {
            "exec": Operation(
                operation_id="exec",
                operation_type=OperationType.EXECUTION,
                status=OperationStatus.STARTED,
                execution_details=ExecutionDetails(input_payload="{}"),
            )
        }
        self.lock = threading.Lock()

    def checkpoint(self, durable_execution_arn, checkpoint_token, updates, client_token):
        changed = []
        with self.lock:
            for u in updates:
                self.updates.append(u)
                kw = dict(
                    operation_id=u.operation_id,
                    operation_type=u.operation_type,
                    parent_id=u.parent_id,
                    name=u.name,
                    sub_type=u.sub_type,
                )
                if u.action is OperationAction.START:
                    op = Operation(status=OperationStatus.STARTED, **kw)
                elif u.operation_type is OperationType.CONTEXT:
                    op = Operation(
                        status=OperationStatus.SUCCEEDED,
                        context_details=ContextDetails(
                            replay_children=bool(u.context_options and u.context_options.replay_children),
                            result=u.payload or None,
                        ),
                        **kw,
                    )
                else:
                    op = Operation(
                        status=OperationStatus.SUCCEEDED,
                        step_details=StepDetails(result=u.payload or None),
                        **kw,
                    )
                self.ops[u.operation_id] = op
                changed.append(op)
        return CheckpointOutput("tok", CheckpointUpdatedExecutionState(operations=changed))

    def get_execution_state(self, *a, **k):  # never paginated here
        raise AssertionError("not expected")


def run(handler, backend):
    ctx = Mock()
    ctx.aws_request_id = "r"
    ctx.client_context = None
    ctx.identity = None
    ctx._epoch_deadline_time_in_ms = 0  # noqa: SLF001
    ctx.invoked_function_arn = "arn"
    ctx.tenant_id = None
    event = DurableExecutionInvocationInputWithClient(
        durable_execution_arn="arn:x",
        checkpoint_token="t",
        initial_execution_state=InitialExecutionState(operations=list(backend.ops.values()), next_marker=""),
        service_client=backend,
    )
    return handler(event, ctx)


TEXT = "é" * 200_000  # 200 000 characters, 400 000 bytes in UTF-8 (and 1.2 MB when \u-escaped)


@durable_execution
def handler(event, context):
    # 1) plain child context
    context.run_in_child_context(
        lambda c: c.step(lambda _s: "ok") and TEXT,
        name="child",
        config=ChildConfig(serdes=Utf8JsonSerDes()),
    )
    # 2) parallel: the branches use the same serdes (item_serdes)
    context.parallel(
        [lambda c: TEXT[:150_000]],
        name="par",
        config=ParallelConfig(item_serdes=Utf8JsonSerDes()),
    )
    return "done"


def main() -> int:
    backend = Backend()
    out = run(handler, backend)
    assert out["Status"] == "SUCCEEDED", out

    offenders = []
    for u in backend.updates:
        if u.operation_type is OperationType.CONTEXT and u.action is OperationAction.SUCCEED:
            size = len((u.payload or "").encode("utf-8"))
            rc = bool(u.context_options and u.context_options.replay_children)
            print(f"context {u.name!r:22} sub_type={u.sub_type.value:16} payload={size:>7} bytes  ReplayChildren={rc}")
            if size > CHECKPOINT_LIMIT_BYTES:
                offenders.append((u.name, size, rc))

    assert not offenders, (
        "C16 violated: results that serialize to more than the 256 KB checkpoint limit were recorded "
        f"in full instead of a summary (name, bytes, ReplayChildren): {offenders}"
    )
    return 0


if __name__ == "__main__":
    sys.exit(main())
