"""C16 finding 1 - a summarised context that is replayed inside the invocation that recorded it is
mistaken for an orphan: the replay is aborted and the invocation hangs.

Clause violated: "only a summary is recorded and EVERY replay rebuilds an equal result by re-running
the context body over its recorded children".

Program (legal public API only):

    parallel P
      branch 0:  r = map M over [0, 1]      # each item returns 300 KB  -> item contexts AND M are summarised
                 wait(1 s)                  # -> TimedSuspendExecution, the branch is parked on the timer
                 return "done"
      branch 1:  one step that takes 3 s    # keeps the invocation alive, so the timer resumes branch 0
                                            # in-process: branch 0 is replayed from the top

When branch 0 is resumed it re-enters M (SUCCEEDED + ReplayChildren) -> ConcurrentExecutor.replay() ->
child_handler(map-item-0) (SUCCEEDED + ReplayChildren) -> OperationExecutor.process() ->
ExecutionState.raise_if_orphaned(): M is in _completed_contexts (it completed in THIS invocation) and
_mark_orphans(M) put the - already completed - items into _parent_done, so OrphanedChildException is
raised. It is a BaseException: it unwinds branch 0, _on_task_complete() swallows it ("Terminating
orphaned branch 0"), branch 0 stays RUNNING for ever and parallel P never completes.

The control run uses 1 KB items (nothing is summarised) and finishes normally.

Run:  PYTHONPATH=/tmp/wt/h1_C16/src /venv/bin/python finding_1.py
"""

from __future__ import annotations

import dataclasses
import datetime
import logging
import os
import sys
import threading
import time
import traceback
from unittest.mock import Mock

from aws_durable_execution_sdk_python.config import Duration
from aws_durable_execution_sdk_python.execution import (
    DurableExecutionInvocationInputWithClient,
    InitialExecutionState,
    durable_execution,
)
from aws_durable_execution_sdk_python.lambda_service import (
    CheckpointOutput,
    CheckpointUpdatedExecutionState,
    ContextDetails,
    ExecutionDetails,
    Operation,
    OperationAction,
    OperationStatus,
    OperationType,
    StateOutput,
    StepDetails,
    WaitDetails,
)


ORPHAN_LOG: list[str] = []


class _Capture(logging.Handler):
    def emit(self, record):
        msg = record.getMessage()
        if "orphaned branch" in msg:
            ORPHAN_LOG.append(msg)


_executor_logger = logging.getLogger("aws_durable_execution_sdk_python.concurrency.executor")
_executor_logger.setLevel(logging.DEBUG)
_executor_logger.addHandler(_Capture())
_executor_logger.propagate = False


class FakeBackend:
    """In-memory durable-execution backend: applies updates, fires due timers, hands back history."""

    def __init__(self):
        self.lock = threading.Lock()
        self.ops: dict[str, Operation] = {}
        self.order: list[str] = []
        self.updates: list[list] = []
        self.exec_op = Operation(
            operation_id="exec-0",
            operation_type=OperationType.EXECUTION,
            status=OperationStatus.STARTED,
            execution_details=ExecutionDetails(input_payload="{}"),
        )

    def checkpoint(self, durable_execution_arn, checkpoint_token, updates, client_token):
        with self.lock:
            changed = []
            for u in updates:
                self.updates[-1].append(u)
                changed.append(self._apply(u))
            # time passes on the backend: waits whose end time was reached are completed
            now = datetime.datetime.now(tz=datetime.UTC)
            for i, op in list(self.ops.items()):
                if (
                    op.operation_type is OperationType.WAIT
                    and op.status is OperationStatus.STARTED
                    and op.wait_details.scheduled_end_timestamp <= now
                ):
                    self.ops[i] = dataclasses.replace(op, status=OperationStatus.SUCCEEDED)
                    changed.append(self.ops[i])
            return CheckpointOutput(
                checkpoint_token="t",
                new_execution_state=CheckpointUpdatedExecutionState(operations=changed),
            )

    def get_execution_state(self, *a, **k):
        return StateOutput(operations=[], next_marker=None)

    def _apply(self, u):
        status = {
            OperationAction.START: OperationStatus.STARTED,
            OperationAction.SUCCEED: OperationStatus.SUCCEEDED,
            OperationAction.FAIL: OperationStatus.FAILED,
            OperationAction.RETRY: OperationStatus.PENDING,
        }[u.action]
        kw = {}
        if u.operation_type is OperationType.CONTEXT:
            kw["context_details"] = ContextDetails(
                replay_children=bool(u.context_options and u.context_options.replay_children),
                result=u.payload if u.action is OperationAction.SUCCEED else None,
                error=u.error,
            )
        elif u.operation_type is OperationType.STEP:
            kw["step_details"] = StepDetails(result=u.payload, error=u.error)
        elif u.operation_type is OperationType.WAIT:
            kw["wait_details"] = WaitDetails(
                scheduled_end_timestamp=datetime.datetime.now(tz=datetime.UTC)
                + datetime.timedelta(seconds=u.wait_options.wait_seconds)
            )
        op = Operation(
            operation_id=u.operation_id,
            operation_type=u.operation_type,
            status=status,
            parent_id=u.parent_id,
            name=u.name,
            sub_type=u.sub_type,
            **kw,
        )
        if u.operation_id not in self.ops:
            self.order.append(u.operation_id)
        self.ops[u.operation_id] = op
        return op

    def invoke(self, handler):
        with self.lock:
            self.updates.append([])
            history = [self.exec_op] + [self.ops[i] for i in self.order]
        event = DurableExecutionInvocationInputWithClient(
            durable_execution_arn="arn:test",
            checkpoint_token="t0",
            initial_execution_state=InitialExecutionState(operations=history, next_marker=""),
            service_client=self,
        )
        ctx = Mock()
        ctx.aws_request_id = "req"
        ctx.client_context = None
        ctx.identity = None
        ctx._epoch_deadline_time_in_ms = 0  # noqa: SLF001
        ctx.invoked_function_arn = "arn:fn"
        ctx.tenant_id = None
        return handler(event, ctx)


def run(item_size: int, timeout: float):
    captured = {}

    def slow_step(_step_ctx):
        time.sleep(3)
        return "slow"

    def branch0(c):
        def item(cc, _item, idx, _items):
            return cc.step(lambda _s: chr(65 + idx) * item_size, name="s")

        batch = c.map([0, 1], item, name="M")
        c.wait(Duration.from_seconds(1), name="w")
        return [len(r) for r in batch.get_results()]

    def branch1(c):
        return c.step(slow_step, name="slow")

    @durable_execution
    def handler(event, ctx):
        captured["r"] = ctx.parallel([branch0, branch1], name="P")
        return "ok"

    backend = FakeBackend()
    out = {}
    t = threading.Thread(target=lambda: out.setdefault("resp", backend.invoke(handler)), daemon=True)
    t.start()
    t.join(timeout)
    summarised = sorted(
        op.name for op in backend.ops.values() if op.context_details and op.context_details.replay_children
    )
    return (None if t.is_alive() else out["resp"]), captured.get("r"), summarised, backend


def main():
    # control: nothing is oversized -> the resumed branch replays fine
    resp, result, summarised, _ = run(item_size=1_000, timeout=30)
    assert resp is not None and resp["Status"] == "SUCCEEDED", f"control run failed: {resp}"
    assert summarised == [], summarised
    assert [i.result for i in result.all] == [[1_000, 1_000], "slow"], result
    print("control (1 KB items, nothing summarised): invocation", resp["Status"], [i.result for i in result.all])

    # oversized items: M and its items are recorded as summaries, then branch 0 is resumed in-process
    resp, result, summarised, backend = run(item_size=300_000, timeout=30)
    print("oversized run: summarised contexts =", summarised)
    for i in backend.order:
        op = backend.ops[i]
        print(f"   {op.operation_type.value:8} {op.name!s:18} {op.status.value}")
    print("SDK log:", ORPHAN_LOG)
    assert resp is not None, (
        "C16 violated: after map 'M' (and its items) were recorded as summaries, the in-process replay of the "
        "resumed branch was aborted with OrphanedChildException instead of rebuilding the result from the "
        "recorded children; branch 0 stays RUNNING and the invocation never returns (waited 30 s; the same "
        "program with small items finishes in ~3 s)"
    )
    assert resp["Status"] == "SUCCEEDED", resp
    assert [i.result for i in result.all] == [[300_000, 300_000], "slow"], result
    print("no violation observed")


if __name__ == "__main__":
    try:
        main()
    except AssertionError:
        traceback.print_exc()
        sys.stdout.flush()
        sys.stderr.flush()
        os._exit(1)  # pool threads of the hung invocation are not daemonic
    os._exit(0)
