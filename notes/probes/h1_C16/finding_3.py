"""C16 finding 3 - a handler result whose invocation response exceeds the 6 MB Lambda response limit is
neither recorded as the execution's result nor kept out of the response.

Clause violated: "When the handler's final result (or error) exceeds the Lambda response limit it is durably
recorded as the execution's result before the invocation reports the status with an empty payload"
(title: "Oversized results stay out of ... responses").

Cause: execution.py durable_execution.wrapper compares len(json.dumps(result)) with
LAMBDA_RESPONSE_SIZE_LIMIT (6 MB minus 50 bytes "for the envelope"), but the result does not travel as raw
JSON: it is placed as a *string* into {"Status": ..., "Result": "<serialized>"} and the runtime JSON-encodes
that dict, so every '"' and '\\' of the serialized result is escaped once more. Any result made of many short
strings / dict keys, or containing non-ASCII text (json.dumps turns 'é' into the 6 characters \\u00e9, the
envelope turns them into the 7 characters \\\\u00e9), grows by 15-35 % in the envelope. A result of 4.8 MB is
judged to fit, no EXECUTION SUCCEED record is written, and the 6.4 MB response is rejected by Lambda
(Function.ResponseSizeTooLarge) - the workflow finished, but its result is lost and the invocation fails.
The error path of the same function measures the complete response dict and does not have this problem.

Run:  PYTHONPATH=/tmp/wt/h1_C16/src /venv/bin/python finding_3.py
"""

from __future__ import annotations

import json
import sys
from unittest.mock import Mock

from aws_durable_execution_sdk_python.execution import (
    LAMBDA_RESPONSE_SIZE_LIMIT,
    DurableExecutionInvocationInputWithClient,
    InitialExecutionState,
    durable_execution,
)
from aws_durable_execution_sdk_python.lambda_service import (
    CheckpointOutput,
    CheckpointUpdatedExecutionState,
    ExecutionDetails,
    Operation,
    OperationStatus,
    OperationType,
    StateOutput,
)

LAMBDA_RESPONSE_LIMIT = 6 * 1024 * 1024  # bytes, synchronous invocation payload quota


class Backend:
    def __init__(self):
        self.execution_record = None
        self.updates = []

    def checkpoint(self, durable_execution_arn, checkpoint_token, updates, client_token):
        for u in updates:
            self.updates.append(u)
            if u.operation_type is OperationType.EXECUTION:
                self.execution_record = u
        return CheckpointOutput(checkpoint_token="t", new_execution_state=CheckpointUpdatedExecutionState())

    def get_execution_state(self, *a, **k):
        return StateOutput(operations=[], next_marker=None)


def invoke(result_obj):
    @durable_execution
    def handler(event, ctx):
        return result_obj

    backend = Backend()
    event = DurableExecutionInvocationInputWithClient(
        durable_execution_arn="arn:test",
        checkpoint_token="t0",
        initial_execution_state=InitialExecutionState(
            operations=[
                Operation(
                    operation_id="exec-0",
                    operation_type=OperationType.EXECUTION,
                    status=OperationStatus.STARTED,
                    execution_details=ExecutionDetails(input_payload="{}"),
                )
            ],
            next_marker="",
        ),
        service_client=backend,
    )
    ctx = Mock()
    ctx.aws_request_id = "req"
    ctx.client_context = None
    ctx.identity = None
    ctx._epoch_deadline_time_in_ms = 0  # noqa: SLF001
    ctx.invoked_function_arn = "arn:fn"
    ctx.tenant_id = None
    return handler(event, ctx), backend


def wire_size(response: dict) -> int:
    """Bytes the Lambda runtime sends for this handler return value (smallest of the two encodings in use)."""
    ascii_bytes = len(json.dumps(response).encode("utf-8"))
    utf8_bytes = len(json.dumps(response, ensure_ascii=False).encode("utf-8"))  # awslambdaric on python3.12+
    return min(ascii_bytes, utf8_bytes)


def check(label, result_obj):
    response, backend = invoke(result_obj)
    size = wire_size(response)
    recorded = backend.execution_record is not None
    print(
        f"{label:34} serialized result = {len(json.dumps(result_obj)):>9,} chars | response = {size:>9,} bytes "
        f"({'OVER' if size > LAMBDA_RESPONSE_LIMIT else 'within'} the {LAMBDA_RESPONSE_LIMIT:,} byte limit) | "
        f"recorded as execution result: {recorded} | Result payload in response: {len(response.get('Result') or ''):,} chars"
    )
    return response, size, recorded


def main():
    # controls: plain ASCII string just below / just above the SDK's threshold behave as specified
    _, size, recorded = check("plain string, at threshold", "x" * (LAMBDA_RESPONSE_SIZE_LIMIT - 2))
    assert size <= LAMBDA_RESPONSE_LIMIT and not recorded
    response, size, recorded = check("plain string, threshold + 1", "x" * (LAMBDA_RESPONSE_SIZE_LIMIT - 1))
    assert recorded and response["Result"] == "" and size <= LAMBDA_RESPONSE_LIMIT

    failures = []
    for label, obj in (
        ("list of 800,000 short strings", ["ab"] * 800_000),
        ("dict with 400,000 small entries", {f"k{i}": "v" for i in range(400_000)}),
        ("1,000,000 non-ASCII characters", "é" * 1_000_000),
    ):
        response, size, recorded = check(label, obj)
        assert response["Status"] == "SUCCEEDED"
        if size > LAMBDA_RESPONSE_LIMIT and not recorded:
            failures.append((label, size))

    assert not failures, (
        "C16 violated: the invocation reports SUCCEEDED with a response larger than the Lambda response limit "
        f"({LAMBDA_RESPONSE_LIMIT:,} bytes) and the result was NOT recorded as the execution's result: {failures}"
    )
    print("no violation observed")


if __name__ == "__main__":
    main()
    sys.exit(0)
