"""C16 finding 2 - a map/parallel that completes early (min_successful) with an oversized result is
rebuilt differently on replay: a branch that the original result reports as STARTED comes back SUCCEEDED.

Clause violated: "only a summary is recorded and every replay rebuilds an EQUAL result by re-running
the context body over its recorded children".

Cause: ConcurrentExecutor.execute() takes its snapshot of the branches (_create_result) as soon as the
completion criteria are met, but the map/parallel context only becomes closed for its branches when
ChildOperationExecutor.execute() hands the context's SUCCEED to ExecutionState.create_checkpoint()
(-> _mark_orphans / _completed_contexts) - after the (large) result was serialised and the summary was
generated. A branch that finishes in that window still gets its SUCCEED accepted and recorded. A small
result is recorded in full, so later replays keep seeing the snapshot; an oversized result is recorded
as a summary only and ConcurrentExecutor.replay() rebuilds it from the recorded branch statuses, which
no longer agree with the snapshot the handler saw in the first invocation.

Part A forces the window deterministically through user-level hooks only (an item function that takes
a little longer, a summary generator that takes a little longer). Part B shows that nothing needs to be
forced: max_concurrency=1 + min_successful=1, the freed worker starts the next item at once and its
SUCCEED is recorded before the map's.

Run:  PYTHONPATH=/tmp/wt/h1_C16/src /venv/bin/python finding_2.py
"""

from __future__ import annotations

import dataclasses
import datetime
import os
import sys
import threading
import traceback
from unittest.mock import Mock

from aws_durable_execution_sdk_python.config import CompletionConfig, MapConfig
from aws_durable_execution_sdk_python.execution import (
    DurableExecutionInvocationInputWithClient,
    InitialExecutionState,
    durable_execution,
)
from aws_durable_execution_sdk_python.lambda_service import (
    CheckpointOutput,
    CheckpointUpdatedExecutionState,
    ContextDetails,
    ExecutionDetails,
    Operation,
    OperationAction,
    OperationStatus,
    OperationType,
    StateOutput,
    StepDetails,
    WaitDetails,
)
from aws_durable_execution_sdk_python.operation.map import MapSummaryGenerator


class FakeBackend:
    """In-memory durable-execution backend: applies updates, fires due timers, hands back history."""

    def __init__(self):
        self.lock = threading.Lock()
        self.ops: dict[str, Operation] = {}
        self.order: list[str] = []
        self.updates: list[list] = []
        self.on_applied = None
        self.exec_op = Operation(
            operation_id="exec-0",
            operation_type=OperationType.EXECUTION,
            status=OperationStatus.STARTED,
            execution_details=ExecutionDetails(input_payload="{}"),
        )

    def checkpoint(self, durable_execution_arn, checkpoint_token, updates, client_token):
        with self.lock:
            changed = []
            for u in updates:
                self.updates[-1].append(u)
                changed.append(self._apply(u))
                if self.on_applied:
                    self.on_applied(u)
            # time passes on the backend: waits whose end time was reached are completed
            now = datetime.datetime.now(tz=datetime.UTC)
            for i, op in list(self.ops.items()):
                if (
                    op.operation_type is OperationType.WAIT
                    and op.status is OperationStatus.STARTED
                    and op.wait_details.scheduled_end_timestamp <= now
                ):
                    self.ops[i] = dataclasses.replace(op, status=OperationStatus.SUCCEEDED)
                    changed.append(self.ops[i])
            return CheckpointOutput(
                checkpoint_token="t",
                new_execution_state=CheckpointUpdatedExecutionState(operations=changed),
            )

    def get_execution_state(self, *a, **k):
        return StateOutput(operations=[], next_marker=None)

    def _apply(self, u):
        status = {
            OperationAction.START: OperationStatus.STARTED,
            OperationAction.SUCCEED: OperationStatus.SUCCEEDED,
            OperationAction.FAIL: OperationStatus.FAILED,
            OperationAction.RETRY: OperationStatus.PENDING,
        }[u.action]
        kw = {}
        if u.operation_type is OperationType.CONTEXT:
            kw["context_details"] = ContextDetails(
                replay_children=bool(u.context_options and u.context_options.replay_children),
                result=u.payload if u.action is OperationAction.SUCCEED else None,
                error=u.error,
            )
        elif u.operation_type is OperationType.STEP:
            kw["step_details"] = StepDetails(result=u.payload, error=u.error)
        elif u.operation_type is OperationType.WAIT:
            kw["wait_details"] = WaitDetails(
                scheduled_end_timestamp=datetime.datetime.now(tz=datetime.UTC)
                + datetime.timedelta(seconds=u.wait_options.wait_seconds)
            )
        op = Operation(
            operation_id=u.operation_id,
            operation_type=u.operation_type,
            status=status,
            parent_id=u.parent_id,
            name=u.name,
            sub_type=u.sub_type,
            **kw,
        )
        if u.operation_id not in self.ops:
            self.order.append(u.operation_id)
        self.ops[u.operation_id] = op
        return op

    def invoke(self, handler):
        with self.lock:
            self.updates.append([])
            history = [self.exec_op] + [self.ops[i] for i in self.order]
        event = DurableExecutionInvocationInputWithClient(
            durable_execution_arn="arn:test",
            checkpoint_token="t0",
            initial_execution_state=InitialExecutionState(operations=history, next_marker=""),
            service_client=self,
        )
        ctx = Mock()
        ctx.aws_request_id = "req"
        ctx.client_context = None
        ctx.identity = None
        ctx._epoch_deadline_time_in_ms = 0  # noqa: SLF001
        ctx.invoked_function_arn = "arn:fn"
        ctx.tenant_id = None
        return handler(event, ctx)


def statuses(batch):
    return [item.status.value for item in batch.all]


def part_a(item_size: int):
    """Two items run concurrently, min_successful=1; item 1 finishes just after the snapshot was taken."""
    snapshot_taken = threading.Event()
    item1_recorded = threading.Event()
    captured = {}
    first_invocation = {"on": True}

    def item(c, _item, idx, _items):
        if idx == 1 and first_invocation["on"]:
            # item 1 simply takes longer than item 0 (forced: until the map has built its result)
            assert snapshot_taken.wait(20), "test scaffolding: snapshot never taken"
        return chr(65 + idx) * item_size

    default_summary = MapSummaryGenerator()

    def summary(batch):
        # a user supplied summary generator that takes a moment (forced: until item 1 is recorded)
        if first_invocation["on"]:
            snapshot_taken.set()
            assert item1_recorded.wait(20), "test scaffolding: item 1 was never recorded"
        return default_summary(batch)

    @durable_execution
    def handler(event, ctx):
        captured["r"] = ctx.map(
            [0, 1],
            item,
            name="M",
            config=MapConfig(
                completion_config=CompletionConfig(min_successful=1),
                summary_generator=summary,
            ),
        )
        return "ok"

    backend = FakeBackend()

    def on_applied(u):
        if u.name == "map-item-1" and u.action is OperationAction.SUCCEED:
            item1_recorded.set()

    backend.on_applied = on_applied
    resp = backend.invoke(handler)
    assert resp["Status"] == "SUCCEEDED", resp
    original = captured["r"]
    recorded_m = next(op for op in backend.ops.values() if op.name == "M")
    first_invocation["on"] = False

    resp = backend.invoke(handler)  # replay with the recorded history
    assert resp["Status"] == "SUCCEEDED", resp
    replayed = captured["r"]
    assert backend.updates[-1] == [], "replay sent new records"
    return original, replayed, recorded_m, backend


def part_b(trials: int) -> int:
    mismatches = 0
    for _ in range(trials):
        captured = {}

        @durable_execution
        def handler(event, ctx):
            captured["r"] = ctx.map(
                [0, 1, 2, 3],
                lambda c, _item, idx, _items: chr(65 + idx) * 300_000,
                name="M",
                config=MapConfig(
                    max_concurrency=1,
                    completion_config=CompletionConfig(min_successful=1),
                    summary_generator=MapSummaryGenerator(),
                ),
            )
            return "ok"

        backend = FakeBackend()
        assert backend.invoke(handler)["Status"] == "SUCCEEDED"
        original = captured["r"]
        assert backend.invoke(handler)["Status"] == "SUCCEEDED"
        if captured["r"] != original:
            mismatches += 1
    return mismatches


def main():
    n = 5
    m = part_b(n)
    print(f"part B (nothing forced, max_concurrency=1, min_successful=1): replay differs in {m} of {n} runs")

    original, replayed, recorded_m, backend = part_a(item_size=300_000)
    print("part A (oversized, forced window)")
    print("   recorded for M      :", recorded_m.status.value, "ReplayChildren =", recorded_m.context_details.replay_children,
          "summary =", recorded_m.context_details.result)
    print("   recorded branches   :", [(op.name, op.status.value) for op in backend.ops.values() if op.name.startswith("map-item")])
    print("   first invocation saw:", statuses(original), "results:", len(original.get_results()), original.completion_reason.value)
    print("   replay rebuilt      :", statuses(replayed), "results:", len(replayed.get_results()), replayed.completion_reason.value)
    assert recorded_m.context_details.replay_children is True
    assert replayed == original, (
        "C16 violated: the oversized map result was recorded as a summary, and the replay rebuilt a result that is "
        f"NOT equal to the one the first invocation returned: item statuses {statuses(original)} -> {statuses(replayed)}, "
        f"get_results() has {len(original.get_results())} -> {len(replayed.get_results())} entries "
        f"(recorded summary: {recorded_m.context_details.result})"
    )
    print("no violation observed")


if __name__ == "__main__":
    try:
        main()
    except AssertionError:
        traceback.print_exc()
        sys.stdout.flush()
        sys.stderr.flush()
        os._exit(1)
    os._exit(0)
