"""C17/R3: replay decision is taken from the first page only.
First page: just the EXECUTION operation + NextMarker; second page: a SUCCEEDED step.
Expected: the log line before the (already completed) step is suppressed."""
import hashlib, json, logging
from unittest.mock import Mock
from aws_durable_execution_sdk_python.execution import *
from aws_durable_execution_sdk_python.lambda_service import *

sid = hashlib.blake2b(b"1").hexdigest()[:64]
class Client:
    def checkpoint(self, **kw): return CheckpointOutput("t1", CheckpointUpdatedExecutionState([], None))
    def get_execution_state(self, **kw):
        return StateOutput([Operation(sid, OperationType.STEP, OperationStatus.SUCCEEDED, step_details=StepDetails(result=json.dumps(7)))], None)
recs = []
class Cap:
    def __getattr__(self, n): return lambda msg, *a, **k: recs.append(msg)
@durable_execution
def handler(event, ctx):
    ctx.set_logger(Cap())
    ctx.logger.info("before-completed-step")
    v = ctx.step(lambda _: 7, name="s")
    ctx.logger.info("after-completed-step")
    return v
inp = DurableExecutionInvocationInputWithClient("arn", "t0", InitialExecutionState([Operation("exec", OperationType.EXECUTION, OperationStatus.STARTED, execution_details=ExecutionDetails("{}"))], "marker"), Client())
print(handler(inp, Mock()), "emitted:", recs)
