"""Scenario family 2: at-most-once steps inside map / parallel / nested contexts, with crash points."""

from __future__ import annotations

import sys
import time

from aws_durable_execution_sdk_python.config import (
    CompletionConfig,
    Duration,
    JitterStrategy,
    MapConfig,
    ParallelConfig,
    StepConfig,
    StepSemantics,
)
from aws_durable_execution_sdk_python.retries import RetryStrategyConfig, create_retry_strategy

from harness import Backend, Crash, Probe, drive

AMO = StepSemantics.AT_MOST_ONCE_PER_RETRY


def strategy(max_attempts=4):
    return create_retry_strategy(
        RetryStrategyConfig(
            max_attempts=max_attempts,
            initial_delay=Duration.from_seconds(1),
            max_delay=Duration.from_seconds(1),
            backoff_rate=1,
            jitter_strategy=JitterStrategy.NONE,
        )
    )


CFG = StepConfig(retry_strategy=strategy(), step_semantics=AMO)


class World:
    def __init__(self, page_size=None, lazy_ready=False):
        self.backend = Backend(page_size=page_size, lazy_ready=lazy_ready)
        self.probe = Probe(lambda: self.backend)
        self.crashed: set = set()
        self.fail: dict[str, set[int]] = {}
        self.crash_in: dict[str, set[int]] = {}
        self.sleep: dict[str, float] = {}

    def fn(self, name, result=None):
        def f(sc):
            attempt = self.probe.enter(name)
            time.sleep(self.sleep.get(name, 0))
            if attempt in self.crash_in.get(name, ()) and (name, attempt) not in self.crashed:
                self.crashed.add((name, attempt))
                self.backend.dead = True
                raise Crash(f"die in {name} attempt {attempt}")
            if attempt in self.fail.get(name, ()):
                raise ValueError(f"boom {name} {attempt}")
            return result if result is not None else f"{name}-ok{attempt}"

        return f


def wf_parallel(w: World):
    def handler(event, ctx):
        def b0(c):
            return c.step(w.fn("pay0"), name="pay0", config=CFG)

        def b1(c):
            x = c.step(w.fn("slow"), name="slow")
            return c.step(w.fn("pay1"), name="pay1", config=CFG) + x

        r = ctx.parallel([b0, b1], name="par")
        return r.get_results()

    return handler


def wf_map_min1(w: World):
    def handler(event, ctx):
        def item(c, it, idx, items):
            return c.step(w.fn(f"pay{idx}"), name=f"pay{idx}", config=CFG)

        r = ctx.map(
            [0, 1, 2],
            item,
            name="m",
            config=MapConfig(completion_config=CompletionConfig(min_successful=1)),
        )
        ctx.wait(Duration.from_seconds(1), name="w")
        r2 = ctx.step(w.fn("after"), name="after", config=CFG)
        return [r.success_count >= 1, r2]

    return handler


def wf_nested(w: World):
    def handler(event, ctx):
        def item(c, it, idx, items):
            def a(cc):
                return cc.step(w.fn(f"a{idx}"), name=f"a{idx}", config=CFG)

            def b(cc):
                cc.wait(Duration.from_seconds(1), name=f"wait{idx}")
                return cc.step(w.fn(f"b{idx}"), name=f"b{idx}", config=CFG)

            return c.parallel([a, b], name=f"p{idx}").get_results()

        r = ctx.map([0, 1], item, name="m")
        return r.get_results()

    return handler


BIG = "x" * (300 * 1024)


def wf_big_child(w: World):
    """Child context with a result > 256KB: recorded as summary, body traversed again on replay."""

    def handler(event, ctx):
        def mk(pre):
            def body(c):
                c.step(w.fn(pre + "pay0"), name=pre + "pay0", config=CFG)

                def b0(cc):
                    return cc.step(w.fn(pre + "pay1"), name=pre + "pay1", config=CFG)

                def b1(cc):
                    return cc.step(w.fn(pre + "pay2", BIG), name=pre + "pay2", config=CFG)

                r = c.parallel([b0, b1], name=pre + "par")
                return r.get_results()

            return body

        out = ctx.run_in_child_context(mk(""), name="big")
        ctx.wait(Duration.from_seconds(1), name="w")
        out2 = ctx.run_in_child_context(mk("x"), name="big2")
        return [len(out), len(out2)]

    return handler


def wf_big_parallel_min1(w: World):
    """parallel with big result and min_successful=1 while the other branch is inside an AMO step."""

    def handler(event, ctx):
        def b0(c):
            return c.step(w.fn("pay0", BIG), name="pay0", config=CFG)

        def b1(c):
            return c.step(w.fn("pay1"), name="pay1", config=CFG)

        r = ctx.parallel(
            [b0, b1], name="par", config=ParallelConfig(completion_config=CompletionConfig(min_successful=1))
        )
        ctx.wait(Duration.from_seconds(1), name="w")
        ctx.step(w.fn("after"), name="after", config=CFG)
        return r.success_count

    return handler


def wf_callback_branch(w: World):
    def handler(event, ctx):
        def b0(c):
            c.step(w.fn("pay0"), name="pay0", config=CFG)
            v = c.wait_for_callback(lambda cid, wc: None, name="cb")
            return c.step(w.fn("pay0b"), name="pay0b", config=CFG) + str(v)

        def b1(c):
            return c.step(w.fn("pay1"), name="pay1", config=CFG)

        return ctx.parallel([b0, b1], name="par").get_results()

    return handler


def between(backend, i):
    for cid in backend.pending_callbacks():
        backend.complete_callback(cid, '"cbres"')


def run(wf, setup, crash_plan=None, page_size=None, lazy_ready=False):
    w = World(page_size=page_size, lazy_ready=lazy_ready)
    setup(w)
    outs = drive(w.backend, wf(w), crash_plan=crash_plan, on_between=between, max_invocations=40)
    return w, outs


def main():
    problems = []
    n = 0
    t0 = time.time()

    def record(tag, w):
        for pr in w.probe.check():
            problems.append((tag, pr))
            print("PROBLEM", tag, pr, flush=True)

    setups = {
        "plain": lambda w: None,
        "fail1": lambda w: w.fail.update({"pay0": {1}, "pay1": {1}, "a0": {1}, "b1": {1, 2}}),
        "fail1_slow": lambda w: (w.fail.update({"pay0": {1}, "a0": {1}}), w.sleep.update({"slow": 2.5, "pay1": 0.5, "a1": 2.5})),
        "crash_retry": lambda w: (
            w.fail.update({"pay0": {1}, "a0": {1}}),
            w.sleep.update({"slow": 2.5, "a1": 2.5}),
            w.crash_in.update({"pay0": {2}, "a0": {2}}),
        ),
        "crash_first": lambda w: w.crash_in.update({"pay0": {1}, "pay1": {1, 2}, "a0": {1}, "b0": {1}, "pay2": {1}, "after": {1}, "xpay1": {1}}),
        "slow_other": lambda w: w.sleep.update({"pay1": 1.5, "pay2": 1.0}),
        "exhaust": lambda w: w.fail.update({"pay0": {1, 2, 3, 4}, "a0": {1, 2, 3, 4}}),
    }
    wfs = {
        "parallel": wf_parallel,
        "map_min1": wf_map_min1,
        "nested": wf_nested,
        "big_child": wf_big_child,
        "big_par_min1": wf_big_parallel_min1,
        "cb_branch": wf_callback_branch,
    }
    only = sys.argv[1:] or list(wfs)
    for wname in only:
        wf = wfs[wname]
        for sname, setup in setups.items():
            for page in (None, 2):
                for lazy in (False, True):
                    n += 1
                    try:
                        w, outs = run(wf, setup, page_size=page, lazy_ready=lazy)
                    except AssertionError as e:
                        print("ASSERT", wname, sname, page, lazy, e, flush=True)
                        continue
                    record((wname, sname, page, lazy), w)
                    if w.backend.anomalies:
                        print("anomaly", wname, sname, page, lazy, set(w.backend.anomalies), flush=True)
        # crash at each checkpoint call
        for sname in ("plain", "fail1"):
            for inv in (1, 2):
                for k in range(1, 9):
                    for phase in ("before", "after"):
                        n += 1
                        try:
                            w, outs = run(wf, setups[sname], crash_plan={inv: (k, phase)})
                        except AssertionError as e:
                            print("ASSERT", wname, sname, inv, k, phase, e, flush=True)
                            continue
                        record((wname, sname, inv, k, phase), w)
        print(wname, "done", n, f"{time.time()-t0:.0f}s", flush=True)
    print("runs:", n, "problems:", len(problems))
    return 1 if problems else 0


if __name__ == "__main__":
    sys.exit(main())
