"""Scenario family 1: top-level / child-context at-most-once step, all crash points."""

from __future__ import annotations

import itertools
import sys

from aws_durable_execution_sdk_python.config import Duration, StepConfig, StepSemantics
from aws_durable_execution_sdk_python.retries import RetryStrategyConfig, create_retry_strategy, RetryDecision
from aws_durable_execution_sdk_python.config import JitterStrategy

from harness import Backend, Crash, Probe, drive

AMO = StepSemantics.AT_MOST_ONCE_PER_RETRY


def strategy(max_attempts=4):
    return create_retry_strategy(
        RetryStrategyConfig(
            max_attempts=max_attempts,
            initial_delay=Duration.from_seconds(1),
            max_delay=Duration.from_seconds(1),
            backoff_rate=1,
            jitter_strategy=JitterStrategy.NONE,
        )
    )


def run(nested: bool, fail_attempts: set[int], crash_in_fn_attempts: set[int], crash_plan, page_size=None, max_attempts=4):
    holder = {}
    backend = Backend(page_size=page_size)
    holder["b"] = backend
    probe = Probe(lambda: holder["b"])
    crashed = set()

    def fn(sc):
        attempt = probe.enter("pay")
        if attempt in crash_in_fn_attempts and attempt not in crashed:
            crashed.add(attempt)
            backend.dead = True
            raise Crash(f"die in attempt {attempt}")
        if attempt in fail_attempts:
            raise ValueError(f"boom {attempt}")
        return f"ok{attempt}"

    cfg = StepConfig(retry_strategy=strategy(max_attempts), step_semantics=AMO)

    def handler(event, ctx):
        a = ctx.step(lambda sc: "first", name="first")
        if nested:
            r = ctx.run_in_child_context(lambda c: c.step(fn, name="pay", config=cfg), name="child")
        else:
            r = ctx.step(fn, name="pay", config=cfg)
        b = ctx.step(lambda sc: "last", name="last")
        return [a, r, b]

    outs = drive(backend, handler, crash_plan=crash_plan)
    return backend, probe, outs


def main():
    problems = []
    n = 0
    for nested in (False, True):
        for fail_attempts in (set(), {1}, {1, 2}, {1, 2, 3, 4}):
            for crash_fn in (set(), {1}, {2}, {1, 2}, {1, 2, 3}):
                for page in (None, 1, 2):
                    n += 1
                    b, p, outs = run(nested, fail_attempts, crash_fn, None, page_size=page)
                    for pr in p.check():
                        problems.append((nested, fail_attempts, crash_fn, page, pr))
    # crash at the k-th checkpoint call of invocation i
    for nested in (False, True):
        for fail_attempts in ({1}, {1, 2, 3, 4}):
            for inv, k, phase in itertools.product((1, 2, 3), (1, 2, 3, 4), ("before", "after")):
                n += 1
                b, p, outs = run(nested, fail_attempts, set(), {inv: (k, phase)})
                for pr in p.check():
                    problems.append((nested, fail_attempts, (inv, k, phase), pr))
    print("runs:", n)
    for pr in problems:
        print("PROBLEM", pr)
    return 1 if problems else 0


if __name__ == "__main__":
    sys.exit(main())
