"""Scratch harness for C04: in-memory backend + multi-invocation driver with crash injection.

Not a deliverable by itself; the finding_/scenario scripts import it.
"""

from __future__ import annotations

import dataclasses
import datetime
import logging
import threading
import time
from typing import Any
from unittest.mock import Mock

from aws_durable_execution_sdk_python.execution import (
    DurableExecutionInvocationInputWithClient,
    InitialExecutionState,
    durable_execution,
)
from aws_durable_execution_sdk_python.lambda_service import (
    CallbackDetails,
    CheckpointOutput,
    CheckpointUpdatedExecutionState,
    ContextDetails,
    ExecutionDetails,
    Operation,
    OperationAction,
    OperationStatus,
    OperationType,
    StateOutput,
    StepDetails,
    WaitDetails,
)

UTC = datetime.UTC
logging.disable(logging.CRITICAL)
TERMINAL = {
    OperationStatus.SUCCEEDED,
    OperationStatus.FAILED,
    OperationStatus.CANCELLED,
    OperationStatus.STOPPED,
    OperationStatus.TIMED_OUT,
}


class BackendDead(Exception):
    """The invocation was killed: the backend answers nothing any more."""


class Crash(BaseException):
    """Raised inside user code to simulate the death of the sandbox."""


class Backend:
    """Faithful-enough model of the durable execution service for one execution."""

    def __init__(self, page_size: int | None = None, lazy_ready: bool = False):
        self.lock = threading.RLock()
        self.ops: dict[str, Operation] = {}
        self.order: list[str] = []
        self.ops["exec"] = Operation(
            operation_id="exec",
            operation_type=OperationType.EXECUTION,
            status=OperationStatus.STARTED,
            execution_details=ExecutionDetails(input_payload="{}"),
        )
        self.order.append("exec")
        self.dirty: set[str] = set()
        self.dead = False
        self.calls = 0  # checkpoint calls in the current invocation
        self.crash_at: tuple[int, str] | None = None  # (n, 'before'|'after')
        self.log: list[tuple[int, str, str, str]] = []  # (invocation, opid, type, action)
        self.invocation = 0
        self.anomalies: list[str] = []
        self.page_size = page_size
        self.token = 0
        self.lazy_ready = lazy_ready  # True: PENDING->READY only between invocations
        self.hooks: list[Any] = []  # callables(update, phase)

    # ------------------------------------------------------------------ time
    def advance(self, everything: bool = False) -> None:
        """Fire the timers that are due (or all of them)."""
        now = datetime.datetime.now(tz=UTC)
        with self.lock:
            for oid, op in list(self.ops.items()):
                if op.operation_type is OperationType.STEP and op.status is OperationStatus.PENDING:
                    ts = op.step_details.next_attempt_timestamp if op.step_details else None
                    if everything or (ts and ts <= now):
                        self._put(dataclasses.replace(op, status=OperationStatus.READY))
                if op.operation_type is OperationType.WAIT and op.status is OperationStatus.STARTED:
                    ts = op.wait_details.scheduled_end_timestamp if op.wait_details else None
                    if everything or (ts and ts <= now):
                        self._put(dataclasses.replace(op, status=OperationStatus.SUCCEEDED))

    def complete_callback(self, callback_id: str, result: str) -> None:
        with self.lock:
            for op in list(self.ops.values()):
                if (
                    op.operation_type is OperationType.CALLBACK
                    and op.callback_details
                    and op.callback_details.callback_id == callback_id
                    and op.status is OperationStatus.STARTED
                ):
                    self._put(
                        dataclasses.replace(
                            op,
                            status=OperationStatus.SUCCEEDED,
                            callback_details=CallbackDetails(callback_id=callback_id, result=result),
                        )
                    )

    def pending_callbacks(self) -> list[str]:
        with self.lock:
            return [
                op.callback_details.callback_id
                for op in self.ops.values()
                if op.operation_type is OperationType.CALLBACK
                and op.status is OperationStatus.STARTED
                and op.callback_details
            ]

    # ------------------------------------------------------------------ storage
    def _put(self, op: Operation) -> None:
        if op.operation_id not in self.ops:
            self.order.append(op.operation_id)
        self.ops[op.operation_id] = op
        self.dirty.add(op.operation_id)

    def _apply(self, u) -> None:
        cur = self.ops.get(u.operation_id)
        self.log.append((self.invocation, u.operation_id, u.operation_type.value, u.action.value))
        if cur is not None and cur.status in TERMINAL:
            self.anomalies.append(f"update {u.action.value} for terminal op {u.name or u.operation_id[:8]} ({cur.status.value})")
            return
        if u.parent_id and u.parent_id in self.ops and self.ops[u.parent_id].status in TERMINAL:
            self.anomalies.append(
                f"update {u.action.value} for {u.name or u.operation_id[:8]} whose parent is terminal"
            )
        base = dict(
            operation_id=u.operation_id,
            operation_type=u.operation_type,
            parent_id=u.parent_id,
            name=u.name,
            sub_type=u.sub_type,
        )
        t, a = u.operation_type, u.action
        if t is OperationType.STEP:
            attempt = cur.step_details.attempt if cur and cur.step_details else 0
            if a is OperationAction.START:
                if cur is not None and cur.status not in {OperationStatus.READY}:
                    self.anomalies.append(f"START for step in status {cur.status.value}")
                op = Operation(status=OperationStatus.STARTED, step_details=StepDetails(attempt=attempt), **base)
            elif a is OperationAction.RETRY:
                delay = u.step_options.next_attempt_delay_seconds if u.step_options else 1
                op = Operation(
                    status=OperationStatus.PENDING,
                    step_details=StepDetails(
                        attempt=attempt + 1,
                        next_attempt_timestamp=datetime.datetime.now(tz=UTC) + datetime.timedelta(seconds=delay),
                        error=u.error,
                        # wait_for_condition keeps its state in the payload
                        result=u.payload,
                    ),
                    **base,
                )
            elif a is OperationAction.SUCCEED:
                op = Operation(
                    status=OperationStatus.SUCCEEDED,
                    step_details=StepDetails(attempt=attempt + 1, result=u.payload),
                    **base,
                )
            elif a is OperationAction.FAIL:
                op = Operation(
                    status=OperationStatus.FAILED,
                    step_details=StepDetails(attempt=attempt + 1, error=u.error),
                    **base,
                )
            else:
                raise AssertionError(a)
        elif t is OperationType.CONTEXT:
            if a is OperationAction.START:
                op = Operation(status=OperationStatus.STARTED, **base)
            elif a is OperationAction.SUCCEED:
                op = Operation(
                    status=OperationStatus.SUCCEEDED,
                    context_details=ContextDetails(
                        replay_children=bool(u.context_options and u.context_options.replay_children),
                        result=u.payload,
                    ),
                    **base,
                )
            else:
                op = Operation(
                    status=OperationStatus.FAILED,
                    context_details=ContextDetails(error=u.error),
                    **base,
                )
        elif t is OperationType.WAIT:
            secs = u.wait_options.wait_seconds if u.wait_options else 1
            op = Operation(
                status=OperationStatus.STARTED,
                wait_details=WaitDetails(
                    scheduled_end_timestamp=datetime.datetime.now(tz=UTC) + datetime.timedelta(seconds=secs)
                ),
                **base,
            )
        elif t is OperationType.CALLBACK:
            op = Operation(
                status=OperationStatus.STARTED,
                callback_details=CallbackDetails(callback_id=f"cb-{u.operation_id[:10]}"),
                **base,
            )
        elif t is OperationType.EXECUTION:
            op = dataclasses.replace(
                self.ops["exec"],
                status=OperationStatus.SUCCEEDED if a is OperationAction.SUCCEED else OperationStatus.FAILED,
            )
        else:
            op = Operation(status=OperationStatus.STARTED, **base)
        self._put(op)

    # ------------------------------------------------------------------ client API
    def checkpoint(self, durable_execution_arn, checkpoint_token, updates, client_token=None):
        with self.lock:
            if self.dead:
                raise BackendDead("dead")
            self.calls += 1
            n = self.calls
            if self.crash_at and self.crash_at[0] == n and self.crash_at[1] == "before":
                self.dead = True
                raise BackendDead(f"killed before call {n}")
            for u in updates:
                for h in self.hooks:
                    h(u, "before")
                self._apply(u)
                for h in self.hooks:
                    h(u, "after")
            if self.crash_at and self.crash_at[0] == n and self.crash_at[1] == "after":
                self.dead = True
                raise BackendDead(f"killed after call {n}")
            if not self.lazy_ready:
                self.advance()
            changed = [self.ops[i] for i in self.order if i in self.dirty]
            self.dirty.clear()
            self.token += 1
            return CheckpointOutput(
                checkpoint_token=f"tok-{self.token}",
                new_execution_state=CheckpointUpdatedExecutionState(operations=changed, next_marker=None),
            )

    def get_execution_state(self, durable_execution_arn, checkpoint_token, next_marker, max_items=1000):
        with self.lock:
            start = int(next_marker)
            ids = self.order[start : start + (self.page_size or 10**9)]
            nxt = start + len(ids)
            return StateOutput(
                operations=[self.ops[i] for i in ids],
                next_marker=str(nxt) if nxt < len(self.order) else None,
            )

    # ------------------------------------------------------------------ invocation
    def make_input(self) -> DurableExecutionInvocationInputWithClient:
        with self.lock:
            self.dirty.clear()
            if self.page_size:
                ids = self.order[: self.page_size]
                marker = str(len(ids)) if len(ids) < len(self.order) else ""
            else:
                ids = list(self.order)
                marker = ""
            return DurableExecutionInvocationInputWithClient(
                durable_execution_arn="arn:test",
                checkpoint_token=f"tok-{self.token}",
                initial_execution_state=InitialExecutionState(
                    operations=[self.ops[i] for i in ids], next_marker=marker
                ),
                service_client=self,
            )


def lambda_ctx():
    c = Mock()
    c.aws_request_id = "rid"
    c.client_context = None
    c.identity = None
    c.invoked_function_arn = "arn"
    c.tenant_id = None
    return c


def invoke_once(backend: Backend, handler, timeout: float = 60.0):
    """One invocation. Returns ('result', dict) | ('raised', exc) | ('hang', None)."""
    backend.invocation += 1
    backend.calls = 0
    backend.dead = False
    wrapped = durable_execution(handler)
    box: dict[str, Any] = {}

    def run():
        try:
            box["out"] = ("result", wrapped(backend.make_input(), lambda_ctx()))
        except BaseException as e:  # noqa: BLE001
            box["out"] = ("raised", e)

    t = threading.Thread(target=run, daemon=True)
    t.start()
    t.join(timeout)
    if t.is_alive():
        backend.dead = True
        return ("hang", None)
    # whatever happens after the invocation ended is not recorded any more
    backend.dead = True
    return box["out"]


def drive(backend: Backend, handler, max_invocations: int = 30, crash_plan=None, on_between=None, verbose=False):
    """Re-invoke until the execution is terminal. crash_plan: {invocation_no: (n, phase)}."""
    outs = []
    for i in range(1, max_invocations + 1):
        backend.crash_at = (crash_plan or {}).get(i)
        kind, val = invoke_once(backend, handler)
        backend.crash_at = None
        outs.append((kind, val))
        if verbose:
            print(f"  inv {i}: {kind} {val if kind != 'raised' else repr(val)}")
        if kind == "hang":
            raise AssertionError(f"invocation {i} hangs")
        if kind == "result" and val["Status"] in ("SUCCEEDED", "FAILED"):
            return outs
        # time passes; the backend fires every timer and re-invokes
        time.sleep(0.05)
        backend.advance(everything=True)
        if on_between:
            on_between(backend, i)
    raise AssertionError(f"execution not terminal after {max_invocations} invocations: {outs[-3:]}")


class Probe:
    """Records every entry of a step function together with what the backend holds at that moment."""

    def __init__(self, backend_ref):
        self.backend_ref = backend_ref  # callable returning the backend
        self.entries: list[tuple[str, int, str, int]] = []  # (name, attempt_no, backend status, invocation)
        self.ignore: set[str] = {"slow"}  # at-least-once helper steps
        self.lock = threading.Lock()

    def enter(self, name: str) -> int:
        b: Backend = self.backend_ref()
        with b.lock:
            op = next((o for o in b.ops.values() if o.name == name and o.operation_type is OperationType.STEP), None)
            status = op.status.value if op else "ABSENT"
            attempt = (op.step_details.attempt if op and op.step_details else 0) + 1
            inv = b.invocation
        with self.lock:
            self.entries.append((name, attempt, status, inv))
        return attempt

    def check(self) -> list[str]:
        problems = []
        seen: dict[tuple[str, int], int] = {}
        for name, attempt, status, inv in self.entries:
            if name in self.ignore:
                continue
            if status != "STARTED":
                problems.append(f"{name}: entered attempt {attempt} in invocation {inv} while backend holds {status}")
            seen[(name, attempt)] = seen.get((name, attempt), 0) + 1
        for (name, attempt), n in seen.items():
            if n > 1:
                problems.append(f"{name}: attempt {attempt} entered {n} times: {[e for e in self.entries if e[0]==name]}")
        return problems
