"""Scenario family 3: the retry strategy varies (None/default, none(), custom, type-filtered, zero delay)."""

from __future__ import annotations

import sys

from aws_durable_execution_sdk_python.config import Duration, StepConfig, StepSemantics
from aws_durable_execution_sdk_python.retries import (
    RetryDecision,
    RetryPresets,
    RetryStrategyConfig,
    create_retry_strategy,
)

from harness import drive
from scen_conc import World, between

AMO = StepSemantics.AT_MOST_ONCE_PER_RETRY


def always(err, n):
    return RetryDecision.retry(Duration()) if n < 6 else RetryDecision.no_retry()


def never_interrupted(err, n):
    # retries user errors, refuses to retry an interrupted attempt
    from aws_durable_execution_sdk_python.exceptions import StepInterruptedError

    if isinstance(err, StepInterruptedError) or n >= 5:
        return RetryDecision.no_retry()
    return RetryDecision.retry(Duration.from_seconds(1))


STRATS = {
    "default_None": None,
    "none": RetryPresets.none(),
    "always_zero_delay": always,
    "never_interrupted": never_interrupted,
    "types_only": create_retry_strategy(
        RetryStrategyConfig(max_attempts=4, initial_delay=Duration.from_seconds(1), retryable_error_types=[ValueError])
    ),
    "max0": create_retry_strategy(RetryStrategyConfig(max_attempts=0)),
}


def wf(w: World, strat, where):
    cfg = StepConfig(retry_strategy=strat, step_semantics=AMO)

    def handler(event, ctx):
        def guarded(c, name):
            try:
                return c.step(w.fn(name), name=name, config=cfg)
            except Exception as e:  # noqa: BLE001 - the workflow tolerates a failed payment
                return f"failed:{type(e).__name__}"

        if where == "top":
            return guarded(ctx, "pay0")
        if where == "child":
            return ctx.run_in_child_context(lambda c: guarded(c, "pay0"), name="ch")
        if where == "parallel":
            def b0(c):
                return guarded(c, "pay0")

            def b1(c):
                c.step(w.fn("slow"), name="slow")
                return guarded(c, "pay1")

            return ctx.parallel([b0, b1], name="par").get_results()
        raise AssertionError(where)

    return handler


def main():
    n = 0
    bad = 0
    for where in ("top", "child", "parallel"):
        for sname, strat in STRATS.items():
            for fail, crash in (
                (set(), set()),
                ({1}, set()),
                (set(), {1}),
                ({1}, {2}),
                (set(), {1, 2, 3}),
                ({1, 2, 3, 4, 5, 6, 7}, set()),
                ({2}, {1, 3}),
            ):
                w = World()
                w.fail.update({"pay0": fail, "pay1": fail})
                w.crash_in.update({"pay0": crash, "pay1": set(crash)})
                w.sleep.update({"slow": 1.5})
                n += 1
                try:
                    outs = drive(w.backend, wf(w, strat, where), on_between=between, max_invocations=40)
                except AssertionError as e:
                    print("ASSERT", where, sname, fail, crash, e, flush=True)
                    continue
                for pr in w.probe.check():
                    bad += 1
                    print("PROBLEM", where, sname, fail, crash, pr, flush=True)
        print(where, "done", n, flush=True)
    print("runs:", n, "problems:", bad)
    return 1 if bad else 0


if __name__ == "__main__":
    sys.exit(main())
