"""Suspicion check: a STEP operation recorded with a status the service does not use for steps."""
import dataclasses
from aws_durable_execution_sdk_python.config import StepConfig, StepSemantics
from aws_durable_execution_sdk_python.lambda_service import Operation, OperationStatus, OperationType, StepDetails
from harness import Backend, Probe, invoke_once
import hashlib
AMO = StepSemantics.AT_MOST_ONCE_PER_RETRY
for st in (OperationStatus.CANCELLED, OperationStatus.TIMED_OUT, OperationStatus.STOPPED):
    b = Backend()
    sid = hashlib.blake2b(b"1").hexdigest()[:64]
    b._put(Operation(operation_id=sid, operation_type=OperationType.STEP, status=st, name="pay", step_details=StepDetails(attempt=1)))
    p = Probe(lambda: b)
    def handler(e, ctx):
        return ctx.step(lambda sc: p.enter("pay"), name="pay", config=StepConfig(step_semantics=AMO))
    print(st, invoke_once(b, handler), p.entries, [x[2:] for x in b.log])
