"""Scenario 4: randomised schedules (tiny switch interval, random backend latency, random failing call) over a nested program."""

from __future__ import annotations

import random
import sys
import threading
import time

from aws_durable_execution_sdk_python.config import (
    CompletionConfig,
    Duration,
    JitterStrategy,
    MapConfig,
    ParallelConfig,
    StepConfig,
    StepSemantics,
)
from aws_durable_execution_sdk_python.exceptions import CallableRuntimeError
from aws_durable_execution_sdk_python.execution import durable_execution
from aws_durable_execution_sdk_python.retries import (
    RetryStrategyConfig,
    create_retry_strategy,
)
from aws_durable_execution_sdk_python.waits import (
    WaitForConditionConfig,
    WaitForConditionDecision,
)
from harness import Backend, dump

violations = []
B: Backend = None  # type: ignore
lock = threading.Lock()
SEED = 0


def after(name, kind="returned"):
    if not B.has_terminal(name):
        with lock:
            violations.append(f"seed={SEED}: user code ran past {name!r} ({kind}) but backend has {B.status_of(name)}")


def make_handler(rnd):
    flaky_count = {}

    def jitter():
        time.sleep(rnd.random() * 0.02)

    @durable_execution
    def handler(event, ctx):
        def leaf(prefix):
            prnd = random.Random(f"{SEED}-{prefix}")
            sem = prnd.choice(list(StepSemantics))
            kind = prnd.choice(["wait", "retry", "cond", "none", "cb", "child"])

            def f(c, *args):
                jitter()
                c.step(lambda _: prefix, name=f"{prefix}.s1", config=StepConfig(step_semantics=sem))
                after(f"{prefix}.s1")
                if kind == "wait":
                    c.wait(Duration(1), name=f"{prefix}.w")
                    after(f"{prefix}.w")
                elif kind == "retry":
                    def flaky(_):
                        flaky_count[prefix] = flaky_count.get(prefix, 0) + 1
                        if flaky_count[prefix] < 2:
                            raise ValueError("flaky")
                        return 1

                    c.step(
                        flaky,
                        name=f"{prefix}.flaky",
                        config=StepConfig(
                            retry_strategy=create_retry_strategy(
                                RetryStrategyConfig(max_attempts=3, initial_delay=Duration(1), jitter_strategy=JitterStrategy.NONE)
                            )
                        ),
                    )
                    after(f"{prefix}.flaky")
                elif kind == "cond":
                    c.wait_for_condition(
                        lambda s, cx: s + 1,
                        WaitForConditionConfig(
                            wait_strategy=lambda s, n: WaitForConditionDecision.stop_polling()
                            if s >= 2
                            else WaitForConditionDecision.continue_waiting(Duration(1)),
                            initial_state=0,
                        ),
                        name=f"{prefix}.cond",
                    )
                    after(f"{prefix}.cond")
                elif kind == "cb":
                    c.wait_for_callback(lambda cid, cx: None, name=f"{prefix}.wfc")
                    after(f"{prefix}.wfc")
                elif kind == "child":
                    def bad(cc):
                        cc.step(lambda _: 1, name=f"{prefix}.bad.s")
                        raise RuntimeError("x")

                    try:
                        c.run_in_child_context(bad, name=f"{prefix}.bad")
                    except CallableRuntimeError:
                        after(f"{prefix}.bad", "raised")
                c.step(lambda _: prefix, name=f"{prefix}.s2")
                after(f"{prefix}.s2")
                return prefix

            return f

        cc = random.Random(f"{SEED}-cc").choice([None, CompletionConfig.first_successful(), CompletionConfig(min_successful=2), CompletionConfig.all_completed()])
        cfg = ParallelConfig(completion_config=cc) if cc else None

        def nested(c):
            r = c.map([1, 2, 3], leaf("n"), name="n.map") if False else None
            items = [0, 1, 2]

            def it(c2, x, idx, all_):
                return leaf(f"n{idx}")(c2)

            r = c.map(items, it, name="n.map", config=MapConfig(completion_config=cc) if cc else None)
            after("n.map")
            return r.success_count

        r = ctx.parallel([leaf("a"), leaf("b"), nested], name="par", config=cfg)
        after("par")
        ctx.step(lambda _: 1, name="tail")
        after("tail")
        return "done"

    return handler


def run(seed):
    global B, SEED
    SEED = seed
    rnd = random.Random(seed)
    B = Backend()
    B.realtime = True
    h = make_handler(rnd)
    fail_inv = rnd.choice([None, 0, 0, 1, 2])
    fail_call = rnd.randrange(0, 8)
    transient = rnd.random() < 0.3
    lat = rnd.choice([0.0, 0.0, 0.01, 0.05])

    def on_call(b, updates, idx):
        time.sleep(rnd.random() * lat)

    B.on_call = on_call
    for inv in range(12):
        B.fail_at = fail_call if inv == fail_inv else None
        B.fail_until = fail_call + 1 if transient else None
        box = B.invoke(h, timeout=90)
        failed = B.failed_calls
        if "hang" in box:
            violations.append(f"seed={seed}: HANG inv={inv}")
            return
        if "result" in box:
            st = box["result"]["Status"]
            if st in ("SUCCEEDED", "PENDING") and failed:
                violations.append(f"seed={seed}: inv={inv} reported {st} although {failed} call(s) failed")
            if st == "PENDING" and not B.wakeable():
                violations.append(f"seed={seed}: inv={inv} PENDING without wakeable record")
            if st != "PENDING":
                return st
        else:
            return dump(box)
        if failed:
            return "failed-invocation"
        time.sleep(1.05)
        B.deliver()
    return "unfinished"


if __name__ == "__main__":
    sys.setswitchinterval(1e-5)
    lo, hi = int(sys.argv[1]), int(sys.argv[2])
    for seed in range(lo, hi):
        before = len(violations)
        r = run(seed)
        print(seed, str(r)[:80], violations[before:], flush=True)
    print("TOTAL violations", len(violations))
    for v in violations:
        print(" -", v)
    sys.exit(1 if violations else 0)
