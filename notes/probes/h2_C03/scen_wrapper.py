"""Scenario 5: wrapper-level edge cases (large handler result, async-only failing batch, un-JSON-able payload)."""

from __future__ import annotations

import sys
import time

from aws_durable_execution_sdk_python.config import Duration, StepConfig
from aws_durable_execution_sdk_python.execution import durable_execution
from aws_durable_execution_sdk_python.serdes import PassThroughSerDes
from harness import Backend, dump

problems = []

# (a) handler result above the Lambda response limit: the EXECUTION SUCCEED record must be accepted first
@durable_execution
def big(event, ctx):
    ctx.step(lambda _: 1, name="s")
    return "x" * (7 * 1024 * 1024)


for k in (None, 0, 1, 2):
    B = Backend()
    B.fail_at = k
    box = B.invoke(big)
    st = box.get("result", {}).get("Status")
    print("(a) fail_at", k, "->", dump(box)[:90], "calls", B.calls, "failed", B.failed_calls)
    if st == "SUCCEEDED" and (B.failed_calls or not any(a[3] == "EXECUTION" for a in B.accepted)):
        problems.append(f"(a) SUCCEEDED without accepted EXECUTION record, fail_at={k}")

# (b) a batch that carries only fire-and-forget updates fails while the handler finishes normally:
#     child START goes out alone (body sleeps past the batching window), and the body raises a BaseException-free
#     path is impossible, so use a re-traversed ReplayChildren context: no updates at all -> nothing to fail.
#     Instead: START of an at-least-once step goes out alone and fails; SUCCEED must then be refused.
ran_past = []


@durable_execution
def slow_step(event, ctx):
    def f(_):
        time.sleep(0.5)
        return 1

    ctx.step(f, name="slow")
    ran_past.append(1)
    return "ok"


B = Backend()
B.fail_at = 0
B.fail_until = 1  # only the first call (START alone) fails; later calls would succeed
box = B.invoke(slow_step)
print("(b)", dump(box)[:90], "accepted", B.accepted, "ran_past", ran_past)
if ran_past or box.get("result", {}).get("Status") == "SUCCEEDED":
    problems.append("(b) user code ran past / SUCCEEDED after a failed START-only batch")

# (c) un-JSON-able payload (bytes through PassThroughSerDes): background thread dies in the size estimate
@durable_execution
def bytes_step(event, ctx):
    ctx.step(lambda _: b"raw", name="bytes", config=StepConfig(serdes=PassThroughSerDes()))
    ran_past.append(2)
    return "ok"


B = Backend()
box = B.invoke(bytes_step, timeout=5)
print("(c)", dump(box)[:90], "ran_past", ran_past)
if 2 in ran_past:
    problems.append("(c) user code ran past a step whose SUCCEED was never sent")

print("problems:", problems)
import os
sys.stdout.flush()
os._exit(1 if problems else 0)
