"""Scenario 1: a workflow using every primitive; fail the checkpoint API at every call index of every invocation."""

from __future__ import annotations

import sys
import threading

from aws_durable_execution_sdk_python.config import (
    CompletionConfig,
    Duration,
    ParallelConfig,
    MapConfig,
    StepConfig,
    StepSemantics,
)
from aws_durable_execution_sdk_python.exceptions import CallableRuntimeError
from aws_durable_execution_sdk_python.execution import durable_execution
from aws_durable_execution_sdk_python.retries import (
    RetryStrategyConfig,
    create_retry_strategy,
)
from aws_durable_execution_sdk_python.config import JitterStrategy
from aws_durable_execution_sdk_python.waits import (
    WaitForConditionConfig,
    WaitForConditionDecision,
)
from harness import Backend, dump

violations = []
CONTINUE = False
B: Backend = None  # type: ignore
lock = threading.Lock()


def after(name, kind="returned"):
    ok = B.has_terminal(name)
    if not ok:
        with lock:
            violations.append(f"user code ran past {name!r} ({kind}) but backend has {B.status_of(name)}")


def make_handler():
    @durable_execution
    def handler(event, ctx):
        ctx.step(lambda _: 1, name="s1")
        after("s1")
        ctx.wait(Duration.from_seconds(1), name="w1")
        after("w1")

        def child(c):
            a = c.step(lambda _: "a", name="c.s", config=StepConfig(step_semantics=StepSemantics.AT_MOST_ONCE_PER_RETRY))
            after("c.s")
            c.wait(Duration(1), name="c.w")
            after("c.w")
            return a

        ctx.run_in_child_context(child, name="child")
        after("child")

        def b1(c):
            c.step(lambda _: "b1", name="p.b1.s")
            after("p.b1.s")
            c.wait(Duration(1), name="p.b1.w")
            after("p.b1.w")
            return 1

        def b2(c):
            r = c.wait_for_callback(lambda cid, cx: None, name="p.b2.wfc")
            after("p.b2.wfc")
            return r

        def b3(c):
            def inner(cc, item, idx, items):
                cc.step(lambda _: item, name=f"p.b3.m{idx}.s")
                after(f"p.b3.m{idx}.s")
                if idx == 1:
                    cc.wait(Duration(1), name=f"p.b3.m{idx}.w")
                    after(f"p.b3.m{idx}.w")
                return item

            r = c.map([10, 20], inner, name="p.b3.map")
            after("p.b3.map")
            return r.get_results()

        ctx.parallel([b1, b2, b3], name="par")
        after("par")

        inv = ctx.invoke("fn", {"x": 1}, name="inv")
        after("inv")

        def check(state, cx):
            return state + 1

        def strat(state, attempt):
            if state >= 2:
                return WaitForConditionDecision.stop_polling()
            return WaitForConditionDecision.continue_waiting(Duration(1))

        ctx.wait_for_condition(check, WaitForConditionConfig(wait_strategy=strat, initial_state=0), name="cond")
        after("cond")

        def bad(_):
            raise ValueError("boom")

        try:
            ctx.step(
                bad,
                name="bad",
                config=StepConfig(
                    retry_strategy=create_retry_strategy(
                        RetryStrategyConfig(max_attempts=2, initial_delay=Duration(1), jitter_strategy=JitterStrategy.NONE)
                    )
                ),
            )
        except CallableRuntimeError:
            after("bad", "raised")

        def fast(c):
            return c.step(lambda _: "fast", name="q.fast.s")

        def slow(c):
            c.wait(Duration(5), name="q.slow.w")
            after("q.slow.w")
            return "slow"

        r = ctx.parallel([fast, slow], name="par2", config=ParallelConfig(completion_config=CompletionConfig.first_successful()))
        after("par2")

        def failing_child(c):
            c.step(lambda _: 1, name="fc.s")
            raise RuntimeError("child failed")

        try:
            ctx.run_in_child_context(failing_child, name="fchild")
        except CallableRuntimeError:
            after("fchild", "raised")
        return "done"

    return handler


def run_to_end(fail_inv=None, fail_call=None, page_size=None):
    """Run the workflow; at invocation `fail_inv`, checkpoint call index `fail_call` (and all later ones) fail."""
    global B
    B = Backend(page_size=page_size)
    h = make_handler()
    trace = []
    for inv in range(40):
        B.fail_at = fail_call if inv == fail_inv else None
        box = B.invoke(h, timeout=60)
        trace.append(dump(box))
        failed = B.failed_calls
        if "hang" in box:
            violations.append(f"HANG inv={inv} fail=({fail_inv},{fail_call})")
            return trace, inv
        if "result" in box:
            st = box["result"]["Status"]
            if st in ("SUCCEEDED", "PENDING") and failed:
                violations.append(f"inv={inv} reported {st} although {failed} checkpoint call(s) failed; fail=({fail_inv},{fail_call})")
            if st == "PENDING" and not B.wakeable():
                violations.append(f"inv={inv} reported PENDING without any wakeable record; fail=({fail_inv},{fail_call})")
            if st == "SUCCEEDED" or (st == "FAILED" and not (CONTINUE and inv == fail_inv)):
                return trace, inv
        if inv == fail_inv and not CONTINUE:
            return trace, inv
        B.deliver()
    violations.append("did not finish")
    return trace, inv


if __name__ == "__main__":
    trace, n = run_to_end()
    print("clean run:", n + 1, "invocations")
    for t in trace:
        print("  ", t[:150])
    calls_per_inv = []
    print("violations so far:", violations)
    if "--full" in sys.argv:
        # count calls per invocation in a clean run
        B = Backend()
        h = make_handler()
        for inv in range(40):
            box = B.invoke(h)
            calls_per_inv.append(B.calls)
            if "result" in box and box["result"]["Status"] != "PENDING":
                break
            B.deliver()
        print("calls per invocation:", calls_per_inv)
        for inv, ncalls in enumerate(calls_per_inv):
            for k in range(ncalls + 1):
                before = len(violations)
                run_to_end(inv, k)
                if len(violations) > before:
                    print("fail at", inv, k, "->", violations[before:])
        print("now continue after the failed invocation (Lambda retry / re-invocation with the recorded history)")
        CONTINUE = True
        for inv, ncalls in enumerate(calls_per_inv):
            for k in range(ncalls + 1):
                before = len(violations)
                tr, n = run_to_end(inv, k)
                print("fail at", inv, k, "-> finished after", n + 1, "invocations:", tr[-1][:60], violations[before:])
        CONTINUE = False
        print("paginated run")
        run_to_end(page_size=3)
    print("TOTAL violations:", len(violations))
    for v in violations:
        print(" -", v)
    sys.exit(1 if violations else 0)
