"""In-memory backend + driver used by the C03 scenario scripts (exploration only, nothing in src/ is touched)."""

from __future__ import annotations

import datetime
import json
import threading
import time
from unittest.mock import Mock

from aws_durable_execution_sdk_python.exceptions import (
    CheckpointError,
    CheckpointErrorCategory,
)
from aws_durable_execution_sdk_python.execution import (
    DurableExecutionInvocationInputWithClient,
    InitialExecutionState,
)
from aws_durable_execution_sdk_python.lambda_service import (
    CallbackDetails,
    ChainedInvokeDetails,
    CheckpointOutput,
    CheckpointUpdatedExecutionState,
    ContextDetails,
    ExecutionDetails,
    Operation,
    OperationAction,
    OperationStatus,
    OperationType,
    StateOutput,
    StepDetails,
    WaitDetails,
)

UTC = datetime.UTC


class Backend:
    """Records checkpoints atomically per call and plays them back as history."""

    def __init__(self, input_payload="{}", page_size=None):
        self.lock = threading.RLock()
        self.ops: dict[str, Operation] = {}
        self.order: list[str] = []
        self.exec_op = Operation(
            operation_id="exec-1",
            operation_type=OperationType.EXECUTION,
            status=OperationStatus.STARTED,
            execution_details=ExecutionDetails(input_payload=input_payload),
        )
        self.accepted: list[tuple[str, str, str | None, str]] = []  # (id, action, name, type)
        self.calls = 0  # number of checkpoint calls in the current invocation
        self.total_calls = 0
        self.fail_at: int | None = None  # call index (within invocation) that fails
        self.fail_exc = None
        self.failed_calls = 0
        self.page_size = page_size
        self.on_call = None  # hook(backend, updates) called before applying
        self.after_call = None
        self.call_log: list[list] = []
        self.delay = 0.0
        self.fail_until = None
        self.realtime = False  # when set: timers fire inside checkpoint calls according to the wall clock
        self.dirty: set[str] = set()

    # ---- service client protocol -------------------------------------------------
    def checkpoint(self, durable_execution_arn, checkpoint_token, updates, client_token):
        with self.lock:
            idx = self.calls
            self.calls += 1
            self.total_calls += 1
        if self.on_call:
            self.on_call(self, updates, idx)
        if self.delay:
            time.sleep(self.delay)
        with self.lock:
            if self.fail_at is not None and idx >= self.fail_at and (self.fail_until is None or idx < self.fail_until):
                self.failed_calls += 1
                raise self.fail_exc or CheckpointError(
                    "injected", CheckpointErrorCategory.INVOCATION
                )
            changed = []
            if self.realtime:
                self.tick()
            for u in updates:
                op = self._apply(u)
                self.dirty.add(u.operation_id)
            changed = [self.ops[i] for i in self.order if i in self.dirty]
            self.dirty.clear()
            for u in updates:
                self.accepted.append(
                    (u.operation_id, u.action.value, u.name, u.operation_type.value)
                )
            self.call_log.append([(u.operation_id, u.action.value, u.name) for u in updates])
            out = CheckpointOutput(
                checkpoint_token=f"tok-{self.total_calls}",
                new_execution_state=CheckpointUpdatedExecutionState(
                    operations=list(changed), next_marker=None
                ),
            )
        if self.after_call:
            self.after_call(self, updates, idx)
        return out

    def get_execution_state(self, durable_execution_arn, checkpoint_token, next_marker, max_items=1000):
        with self.lock:
            start = int(next_marker)
            allops = [self.exec_op] + [self.ops[i] for i in self.order]
            page = allops[start : start + self.page_size]
            nxt = start + self.page_size
            return StateOutput(
                operations=page, next_marker=str(nxt) if nxt < len(allops) else None
            )

    # ---- model -----------------------------------------------------------------------
    def _apply(self, u):
        now = datetime.datetime.now(tz=UTC)
        old = self.ops.get(u.operation_id)
        t, a = u.operation_type, u.action
        kw = dict(
            operation_id=u.operation_id,
            operation_type=t,
            parent_id=u.parent_id,
            name=u.name,
            sub_type=u.sub_type,
            start_timestamp=old.start_timestamp if old else now,
        )
        if t is OperationType.EXECUTION:
            return self.exec_op
        if t is OperationType.STEP:
            attempt = old.step_details.attempt if old and old.step_details else 0
            prev_result = old.step_details.result if old and old.step_details else None
            if a is OperationAction.START:
                op = Operation(status=OperationStatus.STARTED, step_details=StepDetails(attempt=attempt, result=prev_result), **kw)
            elif a is OperationAction.SUCCEED:
                op = Operation(status=OperationStatus.SUCCEEDED, end_timestamp=now, step_details=StepDetails(attempt=attempt + 1, result=u.payload), **kw)
            elif a is OperationAction.FAIL:
                op = Operation(status=OperationStatus.FAILED, end_timestamp=now, step_details=StepDetails(attempt=attempt + 1, error=u.error), **kw)
            elif a is OperationAction.RETRY:
                delay = u.step_options.next_attempt_delay_seconds if u.step_options else 1
                op = Operation(
                    status=OperationStatus.PENDING,
                    step_details=StepDetails(
                        attempt=attempt + 1,
                        next_attempt_timestamp=now + datetime.timedelta(seconds=delay),
                        result=u.payload,
                        error=u.error,
                    ),
                    **kw,
                )
            else:
                raise AssertionError(a)
        elif t is OperationType.CONTEXT:
            if a is OperationAction.START:
                op = Operation(status=OperationStatus.STARTED, **kw)
            elif a is OperationAction.SUCCEED:
                op = Operation(
                    status=OperationStatus.SUCCEEDED,
                    end_timestamp=now,
                    context_details=ContextDetails(
                        replay_children=bool(u.context_options and u.context_options.replay_children),
                        result=u.payload,
                    ),
                    **kw,
                )
            else:
                op = Operation(status=OperationStatus.FAILED, end_timestamp=now, context_details=ContextDetails(error=u.error), **kw)
        elif t is OperationType.WAIT:
            secs = u.wait_options.wait_seconds if u.wait_options else 1
            op = Operation(status=OperationStatus.STARTED, wait_details=WaitDetails(scheduled_end_timestamp=now + datetime.timedelta(seconds=secs)), **kw)
        elif t is OperationType.CALLBACK:
            op = Operation(status=OperationStatus.STARTED, callback_details=CallbackDetails(callback_id=f"cb-{u.operation_id[:8]}"), **kw)
        elif t is OperationType.CHAINED_INVOKE:
            op = Operation(status=OperationStatus.STARTED, chained_invoke_details=ChainedInvokeDetails(), **kw)
        else:
            raise AssertionError(t)
        if u.operation_id not in self.ops:
            self.order.append(u.operation_id)
        self.ops[u.operation_id] = op
        return op

    def tick(self):
        import dataclasses

        now = datetime.datetime.now(tz=UTC)
        for i, op in list(self.ops.items()):
            if (
                op.operation_type is OperationType.WAIT
                and op.status is OperationStatus.STARTED
                and op.wait_details.scheduled_end_timestamp <= now
            ):
                self.ops[i] = dataclasses.replace(op, status=OperationStatus.SUCCEEDED)
                self.dirty.add(i)
            elif (
                op.operation_type is OperationType.STEP
                and op.status is OperationStatus.PENDING
                and op.step_details.next_attempt_timestamp <= now
            ):
                self.ops[i] = dataclasses.replace(op, status=OperationStatus.READY)
                self.dirty.add(i)

    def deliver(self):
        """What the backend does between two invocations: timers fire, callbacks / invokes complete."""
        import dataclasses

        with self.lock:
            for i, op in list(self.ops.items()):
                if op.operation_type is OperationType.WAIT and op.status is OperationStatus.STARTED:
                    self.ops[i] = dataclasses.replace(op, status=OperationStatus.SUCCEEDED)
                elif op.operation_type is OperationType.STEP and op.status is OperationStatus.PENDING:
                    self.ops[i] = dataclasses.replace(op, status=OperationStatus.READY)
                elif op.operation_type is OperationType.CALLBACK and op.status is OperationStatus.STARTED:
                    self.ops[i] = dataclasses.replace(
                        op,
                        status=OperationStatus.SUCCEEDED,
                        callback_details=CallbackDetails(callback_id=op.callback_details.callback_id, result='"cb-result"'),
                    )
                elif op.operation_type is OperationType.CHAINED_INVOKE and op.status is OperationStatus.STARTED:
                    self.ops[i] = dataclasses.replace(
                        op, status=OperationStatus.SUCCEEDED, chained_invoke_details=ChainedInvokeDetails(result='"inv-result"')
                    )

    def wakeable(self):
        with self.lock:
            return [
                op
                for op in self.ops.values()
                if (op.operation_type is OperationType.WAIT and op.status is OperationStatus.STARTED)
                or (op.operation_type is OperationType.STEP and op.status is OperationStatus.PENDING)
                or (op.operation_type is OperationType.CALLBACK and op.status is OperationStatus.STARTED)
                or (op.operation_type is OperationType.CHAINED_INVOKE and op.status is OperationStatus.STARTED)
            ]

    def has_terminal(self, name):
        with self.lock:
            return any(
                op.name == name
                and op.status
                in {
                    OperationStatus.SUCCEEDED,
                    OperationStatus.FAILED,
                    OperationStatus.TIMED_OUT,
                    OperationStatus.CANCELLED,
                    OperationStatus.STOPPED,
                }
                for op in self.ops.values()
            )

    def status_of(self, name):
        with self.lock:
            return [op.status.value for op in self.ops.values() if op.name == name]

    # ---- driving -------------------------------------------------------------------
    def invoke(self, handler, timeout=60):
        with self.lock:
            self.calls = 0
            self.failed_calls = 0
            allops = [self.exec_op] + [self.ops[i] for i in self.order]
        if self.page_size:
            first = allops[: self.page_size]
            marker = str(self.page_size) if len(allops) > self.page_size else ""
        else:
            first, marker = allops, ""
        ev = DurableExecutionInvocationInputWithClient(
            durable_execution_arn="arn:test",
            checkpoint_token="tok-0",
            initial_execution_state=InitialExecutionState(operations=first, next_marker=marker),
            service_client=self,
        )
        ctx = Mock()
        ctx.aws_request_id = "req"
        ctx.invoked_function_arn = "arn:fn"
        ctx.tenant_id = None
        box = {}

        def run():
            try:
                box["result"] = handler(ev, ctx)
            except BaseException as e:  # noqa: BLE001
                box["raised"] = e

        th = threading.Thread(target=run, daemon=True)
        th.start()
        th.join(timeout)
        if th.is_alive():
            box["hang"] = True
        return box


def dump(box):
    if "result" in box:
        return json.dumps(box["result"])
    if "raised" in box:
        return f"raised {type(box['raised']).__name__}: {box['raised']}"
    return "HANG"
