"""Scenario 3: batch boundaries (operation count, byte size, oversize update) and ReplayChildren, with failures at every call index."""

from __future__ import annotations

import sys
import threading

from aws_durable_execution_sdk_python.config import Duration, MapConfig
from aws_durable_execution_sdk_python.execution import durable_execution
from harness import Backend, dump

violations = []
B: Backend = None  # type: ignore
lock = threading.Lock()


def after(name, kind="returned"):
    if not B.has_terminal(name):
        with lock:
            violations.append(f"user code ran past {name!r} ({kind}) but backend has {B.status_of(name)}")


def make_handler(n_items, blob):
    @durable_execution
    def handler(event, ctx):
        def item(c, x, idx, items):
            r = c.step(lambda _: blob + str(x), name=f"m{idx}.s")
            after(f"m{idx}.s")
            return r

        r = ctx.map(list(range(n_items)), item, name="map")
        after("map")
        assert r.success_count == n_items

        def big_child(c):
            a = c.step(lambda _: "y" * 200_000, name="big.s1")
            after("big.s1")
            b = c.step(lambda _: "z" * 200_000, name="big.s2")
            after("big.s2")
            return a + b

        v = ctx.run_in_child_context(big_child, name="big")
        after("big")
        assert len(v) == 400_000
        # one update that alone exceeds the batch byte limit (sent alone; the fake backend accepts it)
        ctx.step(lambda _: "w" * 800_000, name="oversize")
        after("oversize")
        ctx.wait(Duration(1), name="w")
        after("w")
        return "done"

    return handler


def run(n_items, blob, fail_inv=None, fail_call=None):
    global B
    B = Backend()
    h = make_handler(n_items, blob)
    for inv in range(6):
        B.fail_at = fail_call if inv == fail_inv else None
        box = B.invoke(h, timeout=120)
        failed = B.failed_calls
        if "hang" in box:
            violations.append(f"HANG fail=({fail_inv},{fail_call})")
            return inv, box
        if "result" in box:
            st = box["result"]["Status"]
            if st in ("SUCCEEDED", "PENDING") and failed:
                violations.append(f"inv={inv} reported {st} although {failed} call(s) failed (fail=({fail_inv},{fail_call}))")
            if st == "PENDING" and not B.wakeable():
                violations.append("PENDING without wakeable record")
            if st != "PENDING":
                return inv, box
        if inv == fail_inv:
            return inv, box
        B.deliver()
    return inv, box


if __name__ == "__main__":
    for n_items, blob in ((300, ""), (12, "b" * 150_000)):
        inv, box = run(n_items, blob)
        sizes = [len(c) for c in B.call_log]
        print(f"items={n_items} blob={len(blob)} clean: {inv + 1} invocations, {dump(box)[:80]}, batch sizes {sizes}, violations {violations}")
        ncalls0 = None
        # count calls in the first invocation
        Bc = B
        first_inv_calls = None
        B2 = Backend()
        B = B2
        h = make_handler(n_items, blob)
        B.invoke(h, timeout=120)
        first_inv_calls = B.calls
        print("  calls in first invocation:", first_inv_calls)
        for k in range(first_inv_calls + 1):
            before = len(violations)
            inv, box = run(n_items, blob, 0, k)
            print("  fail_at", k, "->", dump(box)[:90], violations[before:])
        # second invocation (replay incl. ReplayChildren re-traversal of 'big')
        for k in range(0, 3):
            before = len(violations)
            inv, box = run(n_items, blob, 1, k)
            print("  inv1 fail_at", k, "->", dump(box)[:90], violations[before:])
    print("TOTAL violations", len(violations))
    for v in violations[:20]:
        print(" -", v)
    sys.exit(1 if violations else 0)
