"""Scenario 2: map/parallel whose branches are resumed by the in-invocation timer, with checkpoint failures at every call index."""

from __future__ import annotations

import sys
import threading
import time

from aws_durable_execution_sdk_python.config import (
    CompletionConfig,
    Duration,
    JitterStrategy,
    ParallelConfig,
    StepConfig,
)
from aws_durable_execution_sdk_python.exceptions import CallableRuntimeError
from aws_durable_execution_sdk_python.execution import durable_execution
from aws_durable_execution_sdk_python.retries import (
    RetryStrategyConfig,
    create_retry_strategy,
)
from harness import Backend, dump

violations = []
B: Backend = None  # type: ignore
lock = threading.Lock()


def after(name, kind="returned"):
    if not B.has_terminal(name):
        with lock:
            violations.append(f"user code ran past {name!r} ({kind}) but backend has {B.status_of(name)}")


def make_handler(first_successful=False):
    attempts = {"n": 0}

    @durable_execution
    def handler(event, ctx):
        def a(c):
            c.wait(Duration(1), name="a.w1")
            after("a.w1")
            c.step(lambda _: "x", name="a.s")
            after("a.s")
            c.wait(Duration(1), name="a.w2")
            after("a.w2")
            return "A"

        def b(c):
            def slow(_):
                time.sleep(2.6)
                return "slow"

            c.step(slow, name="b.slow")
            after("b.slow")
            return "B"

        def cbranch(c):
            def flaky(_):
                attempts["n"] += 1
                if attempts["n"] < 2:
                    raise ValueError("flaky")
                return "ok"

            c.step(
                flaky,
                name="c.flaky",
                config=StepConfig(
                    retry_strategy=create_retry_strategy(
                        RetryStrategyConfig(max_attempts=3, initial_delay=Duration(1), jitter_strategy=JitterStrategy.NONE)
                    )
                ),
            )
            after("c.flaky")
            return "C"

        cfg = ParallelConfig(completion_config=CompletionConfig.first_successful()) if first_successful else None
        r = ctx.parallel([a, b, cbranch], name="par", config=cfg)
        after("par")
        ctx.step(lambda _: 1, name="tail")
        after("tail")
        return "done"

    return handler


def run(fail_call=None, fail_until=None, first_successful=False):
    global B
    B = Backend()
    B.realtime = True
    h = make_handler(first_successful)
    for inv in range(10):
        B.fail_at = fail_call if inv == 0 else None
        B.fail_until = fail_until
        box = B.invoke(h, timeout=60)
        failed = B.failed_calls
        if "hang" in box:
            violations.append(f"HANG fail={fail_call}")
            return inv, box
        if "result" in box:
            st = box["result"]["Status"]
            if st in ("SUCCEEDED", "PENDING") and failed:
                violations.append(f"inv={inv} reported {st} although {failed} call(s) failed (fail_at={fail_call}, until={fail_until})")
            if st == "PENDING" and not B.wakeable():
                violations.append(f"inv={inv} PENDING without wakeable record (fail_at={fail_call})")
            if st != "PENDING":
                return inv, box
        if inv == 0 and fail_call is not None:
            return inv, box
        time.sleep(1.1)
        B.deliver()
    return inv, box


if __name__ == "__main__":
    for fs in (False, True):
        inv, box = run(first_successful=fs)
        n = B.total_calls
        print("first_successful", fs, "clean:", inv + 1, "invocations", dump(box), "calls", n, "violations", violations)
        for k in range(0, n + 1):
            before = len(violations)
            inv, box = run(k, first_successful=fs)
            print("  fail_at", k, "->", dump(box)[:100], violations[before:])
        # transient failure of exactly one call
        for k in range(0, n + 1):
            before = len(violations)
            inv, box = run(k, k + 1, first_successful=fs)
            print("  fail only", k, "->", dump(box)[:100], violations[before:])
    print("TOTAL violations", len(violations))
    for v in violations:
        print(" -", v)
    sys.exit(1 if violations else 0)
