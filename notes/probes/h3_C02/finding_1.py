"""finding_1 (C02, replay transparency): a suspension runs the user's `finally` / `with` clean-up code,
and the durable operations in it are executed and recorded under the operation ids of LATER operations.

ctx.wait(), Callback.result(), a step retry ... suspend the invocation by raising SuspendExecution (a
BaseException) through user code.  Python runs `finally` blocks and context-manager exits while that
exception unwinds.  A durable operation in such a block (release a lock, compensate, close a session)
is NOT refused: it takes the next operation id of its context, its user function runs at once and its
result is checkpointed.  In the re-invocation the normal flow reaches a *different* call at that id and
is answered from that record:

    acquire                      id 1
    try:
        wait / callback.result() id 2   <- suspends: SuspendExecution unwinds through the finally
        work                     id 3   <- replay: answered with the record of `release`, never runs
    finally:
        release                  id 3 in the suspended invocation, id 4 in the next one (runs twice)

So (clause 1) the call `work` is delivered the value of another operation and the call `release` is
executed again on replay instead of being answered from its record, and (clause 2) the final result of
the execution depends on whether the execution was suspended at the wait/callback or not.

Run:  PYTHONPATH=/tmp/wt/h3_C02/src /venv/bin/python finding_1.py      (exits non-zero on the defect)
"""

from __future__ import annotations

import datetime
import logging
import sys
import threading

from aws_durable_execution_sdk_python.config import Duration
from aws_durable_execution_sdk_python.execution import (
    DurableExecutionInvocationInputWithClient,
    InitialExecutionState,
    durable_execution,
)
from aws_durable_execution_sdk_python.lambda_service import (
    CheckpointOutput,
    CheckpointUpdatedExecutionState,
    Operation,
    StateOutput,
)

logging.disable(logging.CRITICAL)
UTC = datetime.UTC


class Backend:
    """In-memory durable-execution service: records checkpoints and plays them back as history."""

    def __init__(self):
        self.ops: dict[str, dict] = {
            "exec": {"Id": "exec", "Type": "EXECUTION", "Status": "STARTED",
                     "ExecutionDetails": {"InputPayload": "{}"}}
        }
        self.lock = threading.Lock()
        self.after_apply = None  # hook(backend, wire_update): the outside world reacting mid-invocation

    def history(self) -> list[Operation]:
        return [Operation.from_dict({k: (dict(v) if isinstance(v, dict) else v) for k, v in op.items()})
                for op in self.ops.values()]

    # --- DurableServiceClient protocol
    def checkpoint(self, durable_execution_arn, checkpoint_token, updates, client_token):
        with self.lock:
            for update in updates:
                wire = update.to_dict()
                self._apply(wire)
                if self.after_apply:
                    self.after_apply(self, wire)
            return CheckpointOutput(
                checkpoint_token="t",
                new_execution_state=CheckpointUpdatedExecutionState(operations=self.history()),
            )

    def get_execution_state(self, durable_execution_arn, checkpoint_token, next_marker, max_items=1000):
        return StateOutput(operations=[], next_marker=None)

    def _apply(self, u: dict):
        op = self.ops.get(u["Id"])
        if op is None:
            op = {"Id": u["Id"], "Type": u["Type"], "Status": "STARTED"}
            for key in ("ParentId", "Name", "SubType"):
                if key in u:
                    op[key] = u[key]
            self.ops[u["Id"]] = op
        assert op["Status"] not in ("SUCCEEDED", "FAILED"), f"update for terminal operation {op}"
        kind, action = u["Type"], u["Action"]
        if kind == "STEP":
            details = op.setdefault("StepDetails", {"Attempt": 0})
            if action == "SUCCEED":
                op["Status"] = "SUCCEEDED"
                details["Result"] = u.get("Payload")
            elif action == "FAIL":
                op["Status"] = "FAILED"
                details["Error"] = u.get("Error", {})
        elif kind == "WAIT":
            op["WaitDetails"] = {"ScheduledEndTimestamp": datetime.datetime.now(tz=UTC) + datetime.timedelta(hours=1)}
        elif kind == "CALLBACK":
            op["CallbackDetails"] = {"CallbackId": "callback-" + u["Id"][:6]}
        elif kind == "CONTEXT":
            if action == "SUCCEED":
                op["Status"] = "SUCCEEDED"
                op["ContextDetails"] = {"Result": u.get("Payload")}
            elif action == "FAIL":
                op["Status"] = "FAILED"
                op["ContextDetails"] = {"Error": u.get("Error", {})}

    # --- what happens between two invocations
    def timers_fire_and_callbacks_arrive(self, callback_result='"approved"'):
        with self.lock:
            for op in self.ops.values():
                if op["Status"] != "STARTED":
                    continue
                if op["Type"] == "WAIT":
                    op["Status"] = "SUCCEEDED"
                if op["Type"] == "CALLBACK":
                    op["Status"] = "SUCCEEDED"
                    op["CallbackDetails"]["Result"] = callback_result

    def names(self):
        return [(op.get("Name"), op["Status"]) for op in self.ops.values() if op["Type"] != "EXECUTION"]


class LambdaContext:
    aws_request_id = "r"
    log_group_name = log_stream_name = function_name = memory_limit_in_mb = None
    function_version = invoked_function_arn = tenant_id = client_context = identity = None

    def get_remaining_time_in_millis(self):
        return 60_000

    def log(self, msg):
        pass


def run_execution(user_handler, backend: Backend) -> tuple[dict, int]:
    """Invoke the wrapped handler until it answers SUCCEEDED or FAILED, like the service does."""
    wrapped = durable_execution(user_handler)
    for invocation in range(1, 8):
        event = DurableExecutionInvocationInputWithClient(
            durable_execution_arn="arn:finding-1",
            checkpoint_token="t",
            initial_execution_state=InitialExecutionState(operations=backend.history(), next_marker=""),
            service_client=backend,
        )
        answer = wrapped(event, LambdaContext())
        if answer["Status"] != "PENDING":
            return answer, invocation
        backend.timers_fire_and_callbacks_arrive()
    raise AssertionError("execution does not finish")


failures: list[str] = []


def check(condition: bool, message: str):
    print(("  ok      " if condition else "  DEFECT  ") + message)
    if not condition:
        failures.append(message)


# --------------------------------------------------------------------------------------------------
# Scenario 1: wait inside try/finally - what the calls are delivered within ONE execution
# --------------------------------------------------------------------------------------------------
def scenario_wait():
    print("scenario 1: acquire; try: wait, work  finally: release")
    executed = {"acquire": 0, "work": 0, "release": 0}
    delivered: dict[str, list] = {"work": [], "release": []}

    def acquire(_):
        executed["acquire"] += 1
        return "lock-1"

    def work(_):
        executed["work"] += 1
        return "work-done"

    def release(_):
        executed["release"] += 1
        return f"released (run {executed['release']} of the release function)"

    def handler(event, ctx):
        ctx.step(acquire, name="acquire")
        try:
            ctx.wait(Duration.from_seconds(30), name="cool-down")
            result = ctx.step(work, name="work")
            delivered["work"].append(result)
        finally:
            delivered["release"].append(ctx.step(release, name="release"))
        return result

    backend = Backend()
    answer, invocations = run_execution(handler, backend)
    print(f"  answer after {invocations} invocations: {answer}")
    print(f"  recorded operations: {backend.names()}")
    print(f"  user functions executed: {executed}")
    print(f"  delivered to the call `work`: {delivered['work']}")
    print(f"  delivered to the call `release`: {delivered['release']}")
    check(executed["work"] == 1, "the step function `work` runs once (it ran %d times)" % executed["work"])
    check(delivered["work"] == ["work-done"],
          "the call ctx.step(work) is delivered the result of `work`, not the record of another operation")
    check(executed["release"] == 1,
          "`release` completes once and is answered from its record afterwards (its function ran %d times)"
          % executed["release"])
    check(len(set(delivered["release"])) == 1,
          "the call ctx.step(release) is delivered the same value in every invocation")
    check(answer.get("Result") == '"work-done"', "the execution result is \"work-done\"")


# --------------------------------------------------------------------------------------------------
# Scenario 2: the final result depends on whether the execution was suspended at callback.result()
# --------------------------------------------------------------------------------------------------
def scenario_callback():
    print("scenario 2: same workflow, the approval arrives (A) while `notify` runs / (B) after the suspension")

    def build():
        def handler(event, ctx):
            callback = ctx.create_callback(name="approval")
            ctx.step(lambda _: f"sent {callback.callback_id}", name="notify")
            try:
                decision = callback.result()  # suspends unless the approval has arrived already
                outcome = ctx.step(lambda _: f"processed after {decision}", name="process")
            finally:
                ctx.step(lambda _: "session closed", name="close-session")
            return outcome

        return handler

    # (A) the external system answers at once: the SUCCEED checkpoint of `notify` already returns the
    #     callback as SUCCEEDED, callback.result() does not suspend
    backend_a = Backend()

    def approve_during_notify(backend, wire):
        if wire.get("Name") == "notify" and wire["Action"] == "SUCCEED":
            for op in backend.ops.values():
                if op["Type"] == "CALLBACK":
                    op["Status"] = "SUCCEEDED"
                    op["CallbackDetails"]["Result"] = '"approved"'

    backend_a.after_apply = approve_during_notify
    answer_a, inv_a = run_execution(build(), backend_a)

    # (B) the external system answers later: callback.result() suspends, the approval arrives, re-invocation
    backend_b = Backend()
    answer_b, inv_b = run_execution(build(), backend_b)

    print(f"  (A) {inv_a} invocation(s): {answer_a}")
    print(f"  (B) {inv_b} invocation(s): {answer_b}")
    print(f"  (B) recorded operations: {backend_b.names()}")
    check(answer_a == answer_b, "the final result does not depend on whether callback.result() suspended")


if __name__ == "__main__":
    scenario_wait()
    scenario_callback()
    if failures:
        print(f"\nFAILED: {len(failures)} violation(s) of replay transparency")
        sys.exit(1)
    print("\nno violation")
