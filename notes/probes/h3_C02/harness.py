"""Exploration harness (not a deliverable): in-memory backend + multi-invocation runner.

Run with PYTHONPATH=/tmp/wt/h3_C02/src from /tmp/wt/h3_C02.
"""

from __future__ import annotations

import datetime
import json
import logging
import threading
import traceback
from typing import Any

from aws_durable_execution_sdk_python import state as state_mod
from aws_durable_execution_sdk_python.execution import (
    DurableExecutionInvocationInputWithClient,
    InitialExecutionState,
    durable_execution,
)
from aws_durable_execution_sdk_python.lambda_service import (
    CheckpointOutput,
    CheckpointUpdatedExecutionState,
    Operation,
    StateOutput,
)

logging.disable(logging.CRITICAL)

UTC = datetime.UTC


def fast_batcher():
    """Exploration only: do not wait 100 ms per checkpoint call."""
    orig = state_mod.CheckpointBatcherConfig

    def make(*a, **k):
        k.setdefault("max_batch_time_seconds", 0.0)
        return orig(*a, **k)

    state_mod.CheckpointBatcherConfig = make  # type: ignore


class CrashError(Exception):
    """Raised by the fake backend: the call (and the invocation) dies."""


class Crash(BaseException):
    """Raised inside a user function: the sandbox dies."""


class Backend:
    def __init__(self, input_payload: str = "{}", page_size: int | None = None, wire: bool = True):
        self.ops: dict[str, dict] = {}
        self.order: list[str] = []
        self.lock = threading.Lock()
        self.page_size = page_size
        self.calls = 0  # backend calls (all invocations)
        self.crash_before: set[int] = set()
        self.crash_after: set[int] = set()
        self.update_log: list[dict] = []
        self.token = 0
        self.wire = wire
        self._put({"Id": "exec-0", "Type": "EXECUTION", "Status": "STARTED",
                   "ExecutionDetails": {"InputPayload": input_payload}})
        self.now = datetime.datetime.now(tz=UTC)
        self.externals: dict[str, dict] = {}  # name -> completion for callbacks / invokes
        self.on_call = None
        self.mid_advance: set[int] = set()
        self.dirty = False
        self.realtime = False
        import time as _t
        self.rt_t0 = _t.time()
        self.rt_base = self.now

    # -- storage
    def _put(self, d: dict):
        if d["Id"] not in self.ops:
            self.order.append(d["Id"])
        self.ops[d["Id"]] = d

    def all_ops(self) -> list[Operation]:
        return [Operation.from_dict(json_copy(self.ops[i])) for i in self.order]

    # -- service client protocol
    def checkpoint(self, durable_execution_arn, checkpoint_token, updates, client_token):
        with self.lock:
            self.calls += 1
            n = self.calls
            if self.on_call:
                self.on_call("checkpoint", n, updates)
            if n in self.crash_before:
                raise CrashError(f"crash before backend call {n}")
            for u in updates:
                self.apply(u.to_dict())
            if self.realtime:
                import time as _t
                self.now = max(self.now, self.rt_base + datetime.timedelta(seconds=_t.time() - self.rt_t0))
                for due, oid in self.pending_timers():
                    if due <= self.now:
                        self.fire(oid)
                        self.dirty = True
            if n in self.mid_advance:
                if self._advance_locked("one"):
                    self.dirty = True
            if n in self.crash_after:
                raise CrashError(f"crash after backend call {n}")
            self.token += 1
            ops = self.all_ops()
            return CheckpointOutput(
                checkpoint_token=f"tok-{self.token}",
                new_execution_state=CheckpointUpdatedExecutionState(operations=ops, next_marker=None),
            )

    def get_execution_state(self, durable_execution_arn, checkpoint_token, next_marker, max_items=1000):
        with self.lock:
            self.calls += 1
            n = self.calls
            if n in self.crash_before or n in self.crash_after:
                raise CrashError(f"crash at backend call {n}")
            start = int(next_marker)
            ops = self.all_ops()
            page = ops[start:start + (self.page_size or 1000)]
            nxt = start + len(page)
            return StateOutput(operations=page, next_marker=str(nxt) if nxt < len(ops) else None)

    # -- semantics
    def apply(self, u: dict):
        self.update_log.append(u)
        oid, typ, action = u["Id"], u["Type"], u["Action"]
        cur = self.ops.get(oid)
        if typ == "EXECUTION":
            d = {"Id": oid, "Type": "EXECUTION", "Status": "SUCCEEDED" if action == "SUCCEED" else "FAILED"}
            self._put(d)
            return
        if cur is None:
            cur = {"Id": oid, "Type": typ, "Status": "STARTED"}
            for k in ("ParentId", "Name", "SubType"):
                if k in u:
                    cur[k] = u[k]
        if cur["Status"] in ("SUCCEEDED", "FAILED", "CANCELLED", "TIMED_OUT", "STOPPED"):
            raise RuntimeError(f"update {action} for terminal operation {oid} {cur.get('Name')} ({cur['Status']})")
        if typ == "STEP":
            det = cur.setdefault("StepDetails", {"Attempt": 0})
            if action == "START":
                cur["Status"] = "STARTED"
            elif action == "RETRY":
                cur["Status"] = "PENDING"
                det["Attempt"] = det.get("Attempt", 0) + 1
                delay = u.get("StepOptions", {}).get("NextAttemptDelaySeconds", 1)
                det["NextAttemptTimestamp"] = datetime.datetime.now(tz=UTC) + datetime.timedelta(seconds=3600 + delay)
                det["_due"] = self.now + datetime.timedelta(seconds=delay)
                if "Payload" in u:
                    det["Result"] = u["Payload"]
                else:
                    det.pop("Result", None)
                if "Error" in u:
                    det["Error"] = u["Error"]
            elif action == "SUCCEED":
                cur["Status"] = "SUCCEEDED"
                det["Attempt"] = det.get("Attempt", 0) + 1
                det.pop("Error", None)
                if "Payload" in u:
                    det["Result"] = u["Payload"]
                else:
                    det.pop("Result", None)
            elif action == "FAIL":
                cur["Status"] = "FAILED"
                det["Attempt"] = det.get("Attempt", 0) + 1
                det.pop("Result", None)
                det["Error"] = u.get("Error", {})
        elif typ == "CONTEXT":
            if action == "START":
                cur["Status"] = "STARTED"
            elif action == "SUCCEED":
                cur["Status"] = "SUCCEEDED"
                cd = {}
                if "Payload" in u:
                    cd["Result"] = u["Payload"]
                if u.get("ContextOptions", {}).get("ReplayChildren"):
                    cd["ReplayChildren"] = True
                cur["ContextDetails"] = cd
            elif action == "FAIL":
                cur["Status"] = "FAILED"
                cur["ContextDetails"] = {"Error": u.get("Error", {})}
        elif typ == "WAIT":
            secs = u.get("WaitOptions", {}).get("WaitSeconds", 1)
            cur["Status"] = "STARTED"
            cur["WaitDetails"] = {"ScheduledEndTimestamp": datetime.datetime.now(tz=UTC) + datetime.timedelta(seconds=3600 + secs)}
            cur["_due"] = self.now + datetime.timedelta(seconds=secs)
        elif typ == "CALLBACK":
            cur["Status"] = "STARTED"
            cur["CallbackDetails"] = {"CallbackId": f"cb-{oid[:8]}"}
            cur["_ext"] = True
        elif typ == "CHAINED_INVOKE":
            cur["Status"] = "STARTED"
            cur["ChainedInvokeDetails"] = {}
            cur["_ext"] = True
            cur["_payload"] = u.get("Payload")
        self._put(cur)

    # -- the world moves on between invocations
    def pending_timers(self):
        out = []
        for oid in self.order:
            o = self.ops[oid]
            if o["Type"] == "WAIT" and o["Status"] == "STARTED":
                out.append((o["_due"], oid))
            if o["Type"] == "STEP" and o["Status"] == "PENDING":
                out.append((o["StepDetails"]["_due"], oid))
        return sorted(out)

    def pending_externals(self):
        return [oid for oid in self.order if self.ops[oid].get("_ext") and self.ops[oid]["Status"] == "STARTED"]

    def fire(self, oid: str):
        o = self.ops[oid]
        if o["Type"] == "WAIT":
            o["Status"] = "SUCCEEDED"
        elif o["Type"] == "STEP":
            o["Status"] = "READY"
            o["StepDetails"].pop("NextAttemptTimestamp", None)

    def complete_external(self, oid: str):
        o = self.ops[oid]
        name = o.get("Name") or ""
        spec = None
        for k, v in self.externals.items():
            if k in name:
                spec = v
        if spec is None:
            spec = {"result": json.dumps("ext-" + name)}
        key = "CallbackDetails" if o["Type"] == "CALLBACK" else "ChainedInvokeDetails"
        if "error" in spec:
            o["Status"] = spec.get("status", "FAILED")
            o[key]["Error"] = spec["error"]
        else:
            o["Status"] = "SUCCEEDED"
            if spec.get("result") is not None:
                o[key]["Result"] = spec["result"]

    def advance(self, policy: str = "all") -> bool:
        """Returns True if anything changed."""
        with self.lock:
            return self._advance_locked(policy)

    def _advance_locked(self, policy):
        if True:
            changed = False
            timers = self.pending_timers()
            ext = self.pending_externals()
            if policy == "all":
                for due, oid in timers:
                    self.now = max(self.now, due)
                    self.fire(oid)
                    changed = True
                for oid in ext:
                    self.complete_external(oid)
                    changed = True
            else:  # "one": the earliest timer(s) only, else one external
                if timers:
                    due0 = timers[0][0]
                    self.now = max(self.now, due0)
                    for due, oid in timers:
                        if due <= self.now:
                            self.fire(oid)
                            changed = True
                elif ext:
                    self.complete_external(ext[0])
                    changed = True
            return changed


def json_copy(d: dict) -> dict:
    out = {}
    for k, v in d.items():
        if k.startswith("_"):
            continue
        if isinstance(v, dict):
            out[k] = json_copy(v)
        else:
            out[k] = v
    return out


class LambdaCtx:
    aws_request_id = "req"
    log_group_name = None
    log_stream_name = None
    function_name = "fn"
    memory_limit_in_mb = "128"
    function_version = "1"
    invoked_function_arn = "arn"
    tenant_id = None
    client_context = None
    identity = None

    def get_remaining_time_in_millis(self):
        return 100000

    def log(self, msg):
        pass


class RunResult:
    def __init__(self):
        self.invocations = 0
        self.crashes = 0
        self.output = None
        self.error = None  # harness-level problem
        self.trace: list = []

    def outcome(self):
        if self.error:
            return ("HARNESS", self.error)
        o = self.output
        return (o.get("Status"), o.get("Result"), json.dumps(o.get("Error"), sort_keys=True))


def run_to_completion(handler_fn, backend: Backend, policy="all", max_invocations=60,
                      first_page: int | None = None, before_invocation=None, timeout=60.0) -> RunResult:
    """Invoke until a terminal answer. handler_fn is the undecorated (event, ctx) function."""
    wrapped = durable_execution(handler_fn)
    rr = RunResult()
    while rr.invocations < max_invocations:
        rr.invocations += 1
        if before_invocation:
            before_invocation(rr.invocations, backend)
        ops = backend.all_ops()
        if first_page is not None and len(ops) > first_page:
            init = InitialExecutionState(operations=ops[:first_page], next_marker=str(first_page))
        else:
            init = InitialExecutionState(operations=ops, next_marker="")
        ev = DurableExecutionInvocationInputWithClient(
            durable_execution_arn="arn:test", checkpoint_token=f"tok-{backend.token}",
            initial_execution_state=init, service_client=backend)
        box: dict[str, Any] = {}

        def call():
            try:
                box["out"] = wrapped(ev, LambdaCtx())
            except BaseException as e:  # noqa: BLE001
                box["exc"] = e
                box["tb"] = traceback.format_exc()

        t = threading.Thread(target=call, daemon=True)
        t.start()
        t.join(timeout)
        if t.is_alive():
            rr.error = f"invocation {rr.invocations} hangs"
            return rr
        if "exc" in box:
            e = box["exc"]
            rr.trace.append(("raised", type(e).__name__, str(e)[:200]))
            if isinstance(e, (CrashError, Crash)):
                rr.crashes += 1
                continue
            # an invocation-level error: the backend retries the invocation
            rr.crashes += 1
            if rr.crashes > 20:
                rr.error = f"invocation keeps raising {type(e).__name__}: {e}\n{box['tb']}"
                return rr
            continue
        out = box["out"]
        rr.trace.append(("answer", out.get("Status")))
        if out["Status"] == "PENDING":
            dirty, backend.dirty = backend.dirty, False
            if not backend.advance(policy) and not dirty:
                rr.error = "PENDING but nothing to wait for"
                rr.output = out
                return rr
            continue
        rr.output = out
        return rr
    rr.error = "too many invocations"
    return rr
