"""finding_2 (C02, replay transparency): a history that went through the SDK's own Operation.to_dict() /
DurableExecutionInvocationInput.to_json_dict() loses an empty-string result - Callback.result() delivers
"" when the result arrives in a checkpoint response and None when the same record is replayed.

Operation.to_dict() writes the result of StepDetails, CallbackDetails and ChainedInvokeDetails only when
it is truthy (`if self.callback_details.result:`), so Operation.from_dict(op.to_dict()) turns result ""
into result None.  (e0052d3 made the pair lossless "for context, wait and invoke details"; these three
truthiness tests are still there.)  A callback result is an opaque string chosen by the external system
(the default for callbacks is the pass-through serdes), "" is a legal value, and Callback.result()
distinguishes the two: `result is None -> return None`, otherwise the string.

Here the service is played by a fake boto3 client (durable_execution(boto3_client=...), i.e. the
production code path: LambdaClient, OperationUpdate.to_dict, Operation.from_dict, from_json_dict).  The
event of every re-invocation is built the way a local runner / the testing tools build it: from Operation
objects with DurableExecutionInvocationInput.to_json_dict().

Lower severity than finding_1: it needs an external system that answers with an empty string and a
re-invocation event produced with the SDK's to_dict()/to_json_dict() (the Lambda service builds its
events itself).

Run:  PYTHONPATH=/tmp/wt/h3_C02/src /venv/bin/python finding_2.py      (exits non-zero on the defect)
"""

from __future__ import annotations

import copy
import datetime
import json
import logging
import sys
import threading

from aws_durable_execution_sdk_python.config import Duration
from aws_durable_execution_sdk_python.execution import (
    DurableExecutionInvocationInput,
    InitialExecutionState,
    durable_execution,
)
from aws_durable_execution_sdk_python.lambda_service import CallbackDetails, Operation, OperationStatus, OperationType

logging.disable(logging.CRITICAL)
UTC = datetime.UTC


class FakeBoto3Lambda:
    """The two durable-execution API calls of the boto3 Lambda client, backed by a dict of wire records."""

    def __init__(self):
        self.records: dict[str, dict] = {
            "exec": {"Id": "exec", "Type": "EXECUTION", "Status": "STARTED",
                     "ExecutionDetails": {"InputPayload": "{}"}}
        }
        self.lock = threading.Lock()

    def wire_operations(self) -> list[dict]:
        return copy.deepcopy(list(self.records.values()))  # boto3 hands out dicts with datetime objects

    def checkpoint_durable_execution(self, DurableExecutionArn, CheckpointToken, Updates, **kwargs):  # noqa: N803
        with self.lock:
            for u in Updates:
                self._apply(u)
            return {"CheckpointToken": "t", "NewExecutionState": {"Operations": self.wire_operations()}}

    def get_durable_execution_state(self, **kwargs):
        return {"Operations": []}

    def _apply(self, u: dict):
        rec = self.records.get(u["Id"])
        if rec is None:
            rec = {"Id": u["Id"], "Type": u["Type"], "Status": "STARTED"}
            for key in ("ParentId", "Name", "SubType"):
                if key in u:
                    rec[key] = u[key]
            self.records[u["Id"]] = rec
        if u["Type"] == "STEP":
            rec.setdefault("StepDetails", {"Attempt": 0})
            if u["Action"] == "SUCCEED":
                rec["Status"] = "SUCCEEDED"
                rec["StepDetails"]["Result"] = u.get("Payload")
                if u.get("Name") == "ask":
                    # the external system answers at once - with an empty comment
                    for other in self.records.values():
                        if other["Type"] == "CALLBACK":
                            other["Status"] = "SUCCEEDED"
                            other["CallbackDetails"]["Result"] = ""
        elif u["Type"] == "CALLBACK":
            rec["CallbackDetails"] = {"CallbackId": "callback-1"}
        elif u["Type"] == "WAIT":
            rec["WaitDetails"] = {"ScheduledEndTimestamp": datetime.datetime.now(tz=UTC) + datetime.timedelta(hours=1)}

    def timers_fire(self):
        for rec in self.records.values():
            if rec["Type"] == "WAIT" and rec["Status"] == "STARTED":
                rec["Status"] = "SUCCEEDED"

    def history(self) -> list[Operation]:
        """The recorded operations as SDK model objects (lossless: from_dict keeps the empty string)."""
        return [Operation.from_dict(r) for r in self.wire_operations()]


class LambdaContext:
    aws_request_id = "r"
    log_group_name = log_stream_name = function_name = memory_limit_in_mb = None
    function_version = invoked_function_arn = tenant_id = client_context = identity = None

    def get_remaining_time_in_millis(self):
        return 60_000

    def log(self, msg):
        pass


delivered: list = []


def handler(event, ctx):
    callback = ctx.create_callback(name="comment")
    ctx.step(lambda _: f"asked for a comment, answer to {callback.callback_id}", name="ask")
    comment = callback.result()
    delivered.append(comment)
    ctx.wait(Duration.from_seconds(30), name="pause")
    return {"comment": comment, "has_comment_field": comment is not None}


def main() -> int:
    # the round trip on its own
    op = Operation(operation_id="c", operation_type=OperationType.CALLBACK, status=OperationStatus.SUCCEEDED,
                   callback_details=CallbackDetails(callback_id="callback-1", result=""))
    round_trip = Operation.from_dict(op.to_dict())
    print("Operation.from_dict(op.to_dict()).callback_details.result =", repr(round_trip.callback_details.result),
          "(was", repr(op.callback_details.result) + ")")

    service = FakeBoto3Lambda()
    wrapped = durable_execution(handler, boto3_client=service)
    answer = None
    for invocation in range(1, 5):
        event = DurableExecutionInvocationInput(
            durable_execution_arn="arn:finding-2",
            checkpoint_token="t",
            initial_execution_state=InitialExecutionState(operations=service.history(), next_marker=""),
        ).to_json_dict()
        event = json.loads(json.dumps(event))  # it really is the JSON event of a Lambda invocation
        answer = wrapped(event, LambdaContext())
        print(f"invocation {invocation}: callback.result() delivered {delivered[-1]!r}, answer {answer}")
        if answer["Status"] != "PENDING":
            break
        service.timers_fire()

    problems = []
    if round_trip != op:
        problems.append("Operation.to_dict()/from_dict() is not lossless for CallbackDetails(result='')")
    if len({repr(v) for v in delivered}) != 1:
        problems.append(f"callback.result() delivered {delivered[0]!r} when it first completed and {delivered[1:]!r} on replay")
    if answer.get("Result") != json.dumps({"comment": "", "has_comment_field": True}):
        problems.append(f"final result {answer.get('Result')!r} differs from what the first delivery implies")
    for p in problems:
        print("DEFECT:", p)
    return 1 if problems else 0


if __name__ == "__main__":
    sys.exit(main())
