"""Directed scenarios for C17 that the fuzz harness does not cover."""

from __future__ import annotations

import logging
import random

import harness_c17 as h
from aws_durable_execution_sdk_python.config import Duration
from aws_durable_execution_sdk_python.context import DurableContext
from aws_durable_execution_sdk_python.execution import (
    DurableExecutionInvocationInputWithClient,
    InitialExecutionState,
    durable_execution,
)

results = []


def report(name, ok, detail=""):
    results.append((name, ok, detail))
    print(("PASS " if ok else "FAIL ") + name + (" :: " + detail if detail else ""))


class ListHandler(logging.Handler):
    def __init__(self):
        super().__init__()
        self.records = []

    def emit(self, record):
        self.records.append(record)


def run(backend, fn, mode="all"):
    first, marker = backend.paginate(mode)

    @durable_execution
    def handler(event, ctx: DurableContext):
        return fn(ctx)

    inp = DurableExecutionInvocationInputWithClient(
        durable_execution_arn=h.ARN,
        checkpoint_token="t",
        initial_execution_state=InitialExecutionState(operations=list(first), next_marker=marker),
        service_client=backend,
    )
    return handler(inp, h.lambda_ctx())


# ---------------------------------------------------------------------------------------
# T1: default (root) logger, no set_logger: first invocation audible, replay silent, ids present
# ---------------------------------------------------------------------------------------
def t1():
    root = logging.getLogger()
    lh = ListHandler()
    root.addHandler(lh)
    old = root.level
    root.setLevel(logging.INFO)
    try:
        backend = h.Backend(random.Random(1))

        def prog(ctx):
            ctx.logger.info("A")
            ctx.step(lambda sc: sc.logger.info("in-s1"), name="s1")
            ctx.logger.info("B")

            def child(c):
                c.logger.info("C-in-child")
                c.step(lambda sc: sc.logger.warning("in-s2"), name="s2")
                c.wait(Duration.from_seconds(2))
                c.logger.info("D-in-child")

            ctx.run_in_child_context(child, name="kid")
            ctx.logger.info("E")
            return 1

        out = run(backend, prog)
        msgs = [r.getMessage() for r in lh.records if r.name == "root"]
        report("T1 first invocation default logger", msgs == ["A", "in-s1", "B", "C-in-child", "in-s2"], str(msgs))
        rec = {r.getMessage(): r for r in lh.records if r.name == "root"}
        ok = (
            rec["A"].executionArn == h.ARN
            and rec["in-s1"].operationId
            and rec["in-s1"].operationName == "s1"
            and rec["in-s1"].attempt == 1
            and rec["C-in-child"].parentId
            and rec["in-s2"].parentId == rec["C-in-child"].parentId
        )
        report("T1 ids on records", bool(ok))
        assert out["Status"] == "PENDING"
        backend.deliver()
        del lh.records[:]
        for mode in ("all", "empty_first", "one_per_page", "first_only_exec"):
            del lh.records[:]
            b2 = h.Backend(random.Random(1))
            b2.ops = dict(backend.ops)
            b2.order = list(backend.order)
            out = run(b2, prog, mode)
            msgs = [r.getMessage() for r in lh.records if r.name == "root"]
            report(f"T1 replay default logger mode={mode}", msgs == ["D-in-child", "E"], str(msgs))
    finally:
        root.removeHandler(lh)
        root.setLevel(old)


# ---------------------------------------------------------------------------------------
# T2: logger object captured once / child logger captured; set_logger in child context
# ---------------------------------------------------------------------------------------
def t2():
    backend = h.Backend(random.Random(2))
    cap_events = []

    class Cap:
        def __init__(self, tag):
            self.tag = tag

        def info(self, msg, *a, extra=None):
            cap_events.append((self.tag, msg, dict(extra or {})))

        debug = warning = error = exception = info

    def prog(ctx):
        ctx.set_logger(Cap("top"))
        log = ctx.logger  # captured once
        log.info("A")
        ctx.step(lambda sc: sc.logger.info("s1"), name="s1")
        log.info("B")

        def child(c):
            c.logger.info("C")
            c.set_logger(Cap("kid"))
            c.logger.info("C2")
            c.step(lambda sc: sc.logger.info("s2"), name="s2")
            c.wait(Duration.from_seconds(2))
            c.logger.info("D")
            c.step(lambda sc: sc.logger.info("s3"), name="s3")

        ctx.run_in_child_context(child, name="kid")
        log.info("E")

    run(backend, prog)
    first = [(t, m) for t, m, _ in cap_events]
    report(
        "T2 first invocation set_logger in child",
        first == [("top", "A"), ("top", "s1"), ("top", "B"), ("top", "C"), ("kid", "C2"), ("kid", "s2")],
        str(first),
    )
    backend.deliver()
    del cap_events[:]
    run(backend, prog, "one_per_page")
    second = [(t, m) for t, m, _ in cap_events]
    report("T2 replay", second == [("kid", "D"), ("kid", "s3"), ("top", "E")], str(second))
    ex = {m: e for _, m, e in cap_events}
    report(
        "T2 ids",
        bool(ex["D"].get("parentId")) and ex["s3"].get("operationName") == "s3" and ex["s3"].get("parentId") == ex["D"]["parentId"] and "parentId" not in ex["E"],
        str(ex),
    )


# ---------------------------------------------------------------------------------------
# T3: every log method is replay aware and passes args / extra through
# ---------------------------------------------------------------------------------------
def t3():
    backend = h.Backend(random.Random(3))
    got = []

    class Cap:
        def _r(self, lvl):
            def f(msg, *a, extra=None):
                got.append((lvl, msg, a, dict(extra or {})))

            return f

        def __getattr__(self, n):
            return self._r(n)

    def prog(ctx):
        ctx.set_logger(Cap())
        for lvl in ("debug", "info", "warning", "error", "exception"):
            getattr(ctx.logger, lvl)("m-%s", lvl, extra={"k": lvl})
        ctx.wait(Duration.from_seconds(1))
        for lvl in ("debug", "info", "warning", "error", "exception"):
            getattr(ctx.logger, lvl)("n-%s", lvl, extra={"k": lvl})

    run(backend, prog)
    report("T3 first: 5 levels before the wait", [g[0] for g in got] == ["debug", "info", "warning", "error", "exception"], str(got))
    report("T3 args+extra", all(g[2] == (g[0],) and g[3]["k"] == g[0] and g[3]["executionArn"] == h.ARN for g in got))
    backend.deliver()
    del got[:]
    run(backend, prog, "empty_first")
    report("T3 replay: only the 5 after the wait", [(g[0], g[1]) for g in got] == [(l, "n-%s") for l in ("debug", "info", "warning", "error", "exception")], str(got))


# ---------------------------------------------------------------------------------------
# T4: history without any completed operation (retry pending / open context / paginated first)
# ---------------------------------------------------------------------------------------
def t4():
    for mode in ("all", "empty_first", "one_per_page"):
        backend = h.Backend(random.Random(4))
        got = []

        class Cap:
            def info(self, msg, *a, extra=None):
                got.append(msg)

            debug = warning = error = exception = info

        n = {"c": 0}

        def prog(ctx):
            ctx.set_logger(Cap())
            ctx.logger.info("A")

            def child(c):
                c.logger.info("B")

                def flaky(sc):
                    sc.logger.info("in")
                    n["c"] += 1
                    if n["c"] < 2:
                        raise ValueError("x")

                c.step(flaky, name="fl")
                c.logger.info("C")

            ctx.run_in_child_context(child)
            ctx.logger.info("D")

        out = run(backend, prog, mode)
        assert out["Status"] == "PENDING", out
        backend.deliver()
        del got[:]
        out = run(backend, prog, mode)
        report(f"T4 nothing completed in history mode={mode}", got == ["A", "B", "in", "C", "D"], str(got))
        # first invocation, paginated with an empty follow-up page
        b2 = h.Backend(random.Random(4))
        del got[:]
        n["c"] = 5
        first = b2.history()
        b2.pages = {"m0": ([], None)}

        @durable_execution
        def handler(event, ctx):
            return prog(ctx)

        inp = DurableExecutionInvocationInputWithClient(
            durable_execution_arn=h.ARN,
            checkpoint_token="t",
            initial_execution_state=InitialExecutionState(operations=first, next_marker="m0"),
            service_client=b2,
        )
        handler(inp, h.lambda_ctx())
        report("T4 first invocation with (empty) second page", got == ["A", "B", "in", "C", "D"], str(got))


if __name__ == "__main__":
    logging.getLogger("aws_durable_execution_sdk_python").setLevel(logging.CRITICAL)
    t1()
    t2()
    t3()
    t4()
    bad = [r for r in results if not r[1]]
    print(f"{len(results)} checks, {len(bad)} failed")
