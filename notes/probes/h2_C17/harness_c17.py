"""Fuzz harness for property C17 (replay-aware context logger).

Drives the real `durable_execution` wrapper with an in-memory fake backend, random sequential
programs (log calls between operations, nested child contexts, callbacks, map/parallel as units),
suspensions, crashes and random pagination of the history, and compares what the context logger
emitted with an oracle derived from the statement of the property.
"""

from __future__ import annotations

import datetime
import random
import sys
import threading
import traceback
from unittest.mock import Mock

from aws_durable_execution_sdk_python import context as ctxmod
from aws_durable_execution_sdk_python.config import (
    ChildConfig,
    CompletionConfig,
    Duration,
    MapConfig,
    ParallelConfig,
    StepConfig,
    StepSemantics,
)
from aws_durable_execution_sdk_python.context import DurableContext
from aws_durable_execution_sdk_python.execution import (
    DurableExecutionInvocationInputWithClient,
    InitialExecutionState,
    durable_execution,
)
from aws_durable_execution_sdk_python.lambda_service import (
    CallbackDetails,
    ChainedInvokeDetails,
    CheckpointOutput,
    CheckpointUpdatedExecutionState,
    ContextDetails,
    ExecutionDetails,
    Operation,
    OperationAction,
    OperationStatus,
    OperationType,
    StateOutput,
    StepDetails,
    WaitDetails,
)
from aws_durable_execution_sdk_python.retries import RetryDecision
from aws_durable_execution_sdk_python.waits import (
    WaitForConditionConfig,
    WaitForConditionDecision,
)

ARN = "arn:aws:lambda:us-east-1:123456789012:function:f:1/durable-execution/x/y"
TERMINAL = {
    OperationStatus.SUCCEEDED,
    OperationStatus.FAILED,
    OperationStatus.CANCELLED,
    OperationStatus.STOPPED,
    OperationStatus.TIMED_OUT,
}


class Crash(BaseException):
    """Simulates the sandbox dying in the middle of user code."""


# --------------------------------------------------------------------------------------
# fake backend
# --------------------------------------------------------------------------------------
class Backend:
    def __init__(self, rng: random.Random, input_payload: str = "{}"):
        self.rng = rng
        self.ops: dict[str, Operation] = {}
        self.order: list[str] = []
        self.lock = threading.Lock()
        self.token = 0
        self.pages: dict[str, tuple[list[Operation], str | None]] = {}
        self._put(
            Operation(
                operation_id="exec-0",
                operation_type=OperationType.EXECUTION,
                status=OperationStatus.STARTED,
                execution_details=ExecutionDetails(input_payload=input_payload),
            )
        )
        self.checkpoint_calls = 0
        self.fail_checkpoint_at: int | None = None

    def _put(self, op: Operation):
        if op.operation_id not in self.ops:
            self.order.append(op.operation_id)
        self.ops[op.operation_id] = op

    # -- DurableServiceClient ---------------------------------------------------------
    def checkpoint(self, durable_execution_arn, checkpoint_token, updates, client_token):
        import os, time
        if os.environ.get("C17_SLOW"):
            time.sleep(self.rng.random() * 0.03)
        with self.lock:
            self.checkpoint_calls += 1
            if (
                self.fail_checkpoint_at is not None
                and self.checkpoint_calls >= self.fail_checkpoint_at
            ):
                raise RuntimeError("backend unreachable (simulated crash)")
            changed = []
            for u in updates:
                changed.append(self._apply(u))
            self.token += 1
            return CheckpointOutput(
                checkpoint_token=f"tok-{self.token}",
                new_execution_state=CheckpointUpdatedExecutionState(
                    operations=changed, next_marker=None
                ),
            )

    def get_execution_state(
        self, durable_execution_arn, checkpoint_token, next_marker, max_items=1000
    ):
        ops, nxt = self.pages[next_marker]
        return StateOutput(operations=list(ops), next_marker=nxt)

    # -- state machine ----------------------------------------------------------------
    def _apply(self, u) -> Operation:
        old = self.ops.get(u.operation_id)
        now = datetime.datetime.now(datetime.UTC)
        t = u.operation_type
        a = u.action
        base = dict(
            operation_id=u.operation_id,
            operation_type=t,
            parent_id=u.parent_id if u.parent_id else (old.parent_id if old else None),
            name=u.name or (old.name if old else None),
            sub_type=u.sub_type or (old.sub_type if old else None),
            start_timestamp=old.start_timestamp if old else now,
        )
        if old and old.status in TERMINAL and t is not OperationType.EXECUTION:
            raise AssertionError(
                f"update {a} for terminal operation {u.operation_id} ({old.status})"
            )
        if t is OperationType.EXECUTION:
            op = Operation(
                **{**base, "operation_id": "exec-0"},
                status=OperationStatus.SUCCEEDED
                if a is OperationAction.SUCCEED
                else OperationStatus.FAILED,
                execution_details=self.ops["exec-0"].execution_details,
            )
            self._put(op)
            return op
        if t is OperationType.STEP:
            attempt = old.step_details.attempt if old and old.step_details else 0
            prev_result = old.step_details.result if old and old.step_details else None
            if a is OperationAction.START:
                op = Operation(
                    **base,
                    status=OperationStatus.STARTED,
                    step_details=StepDetails(attempt=attempt, result=prev_result),
                )
            elif a is OperationAction.SUCCEED:
                op = Operation(
                    **base,
                    status=OperationStatus.SUCCEEDED,
                    end_timestamp=now,
                    step_details=StepDetails(attempt=attempt + 1, result=u.payload),
                )
            elif a is OperationAction.FAIL:
                op = Operation(
                    **base,
                    status=OperationStatus.FAILED,
                    end_timestamp=now,
                    step_details=StepDetails(attempt=attempt + 1, error=u.error),
                )
            elif a is OperationAction.RETRY:
                delay = u.step_options.next_attempt_delay_seconds if u.step_options else 1
                op = Operation(
                    **base,
                    status=OperationStatus.PENDING,
                    step_details=StepDetails(
                        attempt=attempt + 1,
                        next_attempt_timestamp=now + datetime.timedelta(seconds=delay),
                        result=u.payload,
                        error=u.error,
                    ),
                )
            else:
                raise AssertionError(a)
        elif t is OperationType.CONTEXT:
            if a is OperationAction.START:
                op = Operation(**base, status=OperationStatus.STARTED)
            elif a is OperationAction.SUCCEED:
                op = Operation(
                    **base,
                    status=OperationStatus.SUCCEEDED,
                    end_timestamp=now,
                    context_details=ContextDetails(
                        replay_children=bool(
                            u.context_options and u.context_options.replay_children
                        ),
                        result=u.payload,
                    ),
                )
            else:
                op = Operation(
                    **base,
                    status=OperationStatus.FAILED,
                    end_timestamp=now,
                    context_details=ContextDetails(error=u.error),
                )
        elif t is OperationType.WAIT:
            secs = u.wait_options.wait_seconds if u.wait_options else 1
            op = Operation(
                **base,
                status=OperationStatus.STARTED,
                wait_details=WaitDetails(
                    scheduled_end_timestamp=now + datetime.timedelta(seconds=secs)
                ),
            )
        elif t is OperationType.CALLBACK:
            op = Operation(
                **base,
                status=OperationStatus.STARTED,
                callback_details=CallbackDetails(callback_id=f"cb-{u.operation_id[:8]}"),
            )
        elif t is OperationType.CHAINED_INVOKE:
            op = Operation(
                **base,
                status=OperationStatus.STARTED,
                chained_invoke_details=ChainedInvokeDetails(),
            )
        else:
            raise AssertionError(t)
        self._put(op)
        return op

    # -- what the service does between invocations --------------------------------------
    def deliver(self, fail_callbacks=False):
        fail_callbacks = self.rng.random() < 0.15
        """Complete everything that is pending on the outside world."""
        now = datetime.datetime.now(datetime.UTC)
        for oid in list(self.order):
            op = self.ops[oid]
            kw = dict(
                operation_id=op.operation_id,
                operation_type=op.operation_type,
                parent_id=op.parent_id,
                name=op.name,
                sub_type=op.sub_type,
                start_timestamp=op.start_timestamp,
            )
            if op.operation_type is OperationType.STEP and op.status is OperationStatus.PENDING:
                self.ops[oid] = Operation(
                    **kw,
                    status=OperationStatus.READY,
                    step_details=StepDetails(
                        attempt=op.step_details.attempt,
                        result=op.step_details.result,
                        error=op.step_details.error,
                    ),
                )
            elif op.operation_type is OperationType.WAIT and op.status is OperationStatus.STARTED:
                self.ops[oid] = Operation(
                    **kw,
                    status=OperationStatus.SUCCEEDED,
                    end_timestamp=now,
                    wait_details=op.wait_details,
                )
            elif (
                op.operation_type is OperationType.CALLBACK
                and op.status is OperationStatus.STARTED
            ):
                from aws_durable_execution_sdk_python.lambda_service import ErrorObject
                self.ops[oid] = Operation(
                    **kw,
                    status=self.rng.choice([OperationStatus.FAILED, OperationStatus.TIMED_OUT]) if fail_callbacks else OperationStatus.SUCCEEDED,
                    end_timestamp=now,
                    callback_details=CallbackDetails(
                        callback_id=op.callback_details.callback_id,
                        result=None if fail_callbacks else '"cbres"',
                        error=ErrorObject("boom", "E", None, None) if fail_callbacks else None,
                    ),
                )
            elif (
                op.operation_type is OperationType.CHAINED_INVOKE
                and op.status is OperationStatus.STARTED
            ):
                from aws_durable_execution_sdk_python.lambda_service import ErrorObject
                self.ops[oid] = Operation(
                    **kw,
                    status=self.rng.choice([OperationStatus.FAILED, OperationStatus.TIMED_OUT, OperationStatus.STOPPED]) if fail_callbacks else OperationStatus.SUCCEEDED,
                    end_timestamp=now,
                    chained_invoke_details=ChainedInvokeDetails(
                        result=None if fail_callbacks else '"invres"',
                        error=ErrorObject("boom", "E", None, None) if fail_callbacks else None,
                    ),
                )

    def history(self) -> list[Operation]:
        return [self.ops[i] for i in self.order]

    def completed_ids(self) -> set[str]:
        return {
            o.operation_id
            for o in self.ops.values()
            if o.operation_type is not OperationType.EXECUTION and o.status in TERMINAL
        }

    def paginate(self, mode: str):
        """Split the history into the invocation payload and later pages."""
        hist = self.history()
        rng = self.rng
        self.pages = {}
        if mode == "all":
            return hist, None
        if mode == "first_only_exec":
            cuts = [1]
        elif mode == "empty_first":
            cuts = [0]
        elif mode == "one_per_page":
            cuts = list(range(1, len(hist)))
        else:  # random
            n = rng.randint(0, 3)
            cuts = sorted({rng.randint(0, len(hist)) for _ in range(n)})
            if rng.random() < 0.3:
                cuts = [0, *cuts]
        chunks = []
        prev = 0
        for c in cuts:
            chunks.append(hist[prev:c])
            prev = c
        chunks.append(hist[prev:])
        # random empty page in the middle
        if mode == "random" and rng.random() < 0.2 and len(chunks) > 1:
            chunks.insert(rng.randint(1, len(chunks) - 1), [])
        first = chunks[0]
        rest = chunks[1:]
        if not rest or all(not c for c in rest) and mode != "random":
            if not rest:
                return first, None
        marker = None
        for i in reversed(range(len(rest))):
            key = f"m{i}"
            self.pages[key] = (rest[i], marker)
            marker = key
        return first, marker


# --------------------------------------------------------------------------------------
# capturing logger + event recording
# --------------------------------------------------------------------------------------
class Capture:
    def __init__(self, events, lock):
        self.events = events
        self.lock = lock

    def _rec(self, level, msg, args, extra):
        with self.lock:
            self.events.append(("emit", str(msg), dict(extra or {}), level))

    def debug(self, msg, *args, extra=None):
        self._rec("debug", msg, args, extra)

    def info(self, msg, *args, extra=None):
        self._rec("info", msg, args, extra)

    def warning(self, msg, *args, extra=None):
        self._rec("warning", msg, args, extra)

    def error(self, msg, *args, extra=None):
        self._rec("error", msg, args, extra)

    def exception(self, msg, *args, extra=None):
        self._rec("exception", msg, args, extra)


_tl = threading.local()
EVENTS: list = []
EV_LOCK = threading.Lock()


def _created():
    if not hasattr(_tl, "created"):
        _tl.created = []
    return _tl.created


_orig_create = DurableContext._create_step_id


def _patched_create(self):
    oid = _orig_create(self)
    _created().append(oid)
    return oid


DurableContext._create_step_id = _patched_create


def _wrap(name):
    orig = getattr(DurableContext, name)

    def wrapped(self, *a, **k):
        marker = len(_created())
        try:
            return orig(self, *a, **k)
        finally:
            c = _created()
            if len(c) > marker:
                with EV_LOCK:
                    EVENTS.append(("exit", c[marker], name))

    setattr(DurableContext, name, wrapped)


for _n in (
    "step",
    "wait",
    "create_callback",
    "invoke",
    "map",
    "parallel",
    "run_in_child_context",
    "wait_for_condition",
):
    _wrap(_n)


def call_log(logger, tag, expect_extra=None):
    """A log call of the user program: record that it was made, then make it."""
    with EV_LOCK:
        EVENTS.append(("call", tag, expect_extra))
    logger.info(tag)


# --------------------------------------------------------------------------------------
# random programs
# --------------------------------------------------------------------------------------
class Tags:
    def __init__(self):
        self.n = 0

    def new(self, prefix="L"):
        self.n += 1
        return f"{prefix}{self.n}"


def gen_program(rng: random.Random, depth=0, tags=None, max_len=5):
    tags = tags or Tags()
    prog = []
    n = rng.randint(1, max_len)
    kinds = ["step", "step_retry", "step_fail", "wait", "cb", "wfc", "invoke", "wfcond"]
    if depth < 3:
        kinds += ["child", "child", "bigchild", "child_fail", "map", "parallel", "mapnest"]
    for _ in range(n):
        if rng.random() < 0.8:
            prog.append(("log", tags.new()))
        k = rng.choice(kinds)
        if k == "step":
            prog.append(("step", tags.new("S"), 0, rng.choice([True, False])))
        elif k == "step_retry":
            prog.append(("step", tags.new("S"), rng.randint(1, 2), rng.choice([True, False])))
        elif k == "step_fail":
            prog.append(("step_fail", tags.new("S")))
        elif k == "wait":
            prog.append(("wait",))
        elif k == "cb":
            prog.append(("cb", tags.new("L"), tags.new("L")))
        elif k == "wfc":
            prog.append(("wfc", tags.new("S")))
        elif k == "invoke":
            prog.append(("invoke",))
        elif k == "wfcond":
            prog.append(("wfcond", tags.new("S"), rng.randint(1, 3)))
        elif k == "child":
            prog.append(("child", gen_program(rng, depth + 1, tags, 3)))
        elif k == "bigchild":
            prog.append(("bigchild", gen_program(rng, depth + 1, tags, 3)))
        elif k == "child_fail":
            prog.append(("child_fail", gen_program(rng, depth + 1, tags, 2)))
        elif k == "map":
            prog.append(("map", rng.randint(0, 3), rng.choice(["step", "wait", "none"]), rng.choice([False, True])))
        elif k == "parallel":
            prog.append(("parallel", rng.randint(1, 3), rng.choice(["step", "wait", "bigwait", "failwfc"]), rng.choice([None, 1])))
        elif k == "mapnest":
            prog.append(("mapnest", rng.randint(1, 2), gen_program(rng, depth + 2, Tags(), 2)))
    if rng.random() < 0.8:
        prog.append(("log", tags.new()))
    return prog


class Runner:
    """Interprets a program against a DurableContext. `attempts` survives invocations
    (it models the outside world the step functions talk to)."""

    def __init__(self, prog, crash_at=None):
        self.prog = prog
        self.attempts: dict[str, int] = {}
        self.crash_at = crash_at  # tag of the log call at which the sandbox dies (once)
        self.crashed = False

    def log(self, ctx, tag, enclosing=None):
        if self.crash_at == tag and not self.crashed:
            self.crashed = True
            raise Crash(tag)
        call_log(ctx.logger, tag, enclosing)

    def run(self, ctx: DurableContext, prog=None, enclosing=None):
        prog = self.prog if prog is None else prog
        for node in prog:
            k = node[0]
            if k == "log":
                self.log(ctx, node[1], enclosing)
            elif k == "step":
                _, tag, fails, at_most_once = node

                def fn(sc, tag=tag, fails=fails):
                    call_log(sc.logger, tag + ":in", "step")
                    n = self.attempts.get(tag, 0)
                    self.attempts[tag] = n + 1
                    if n < fails:
                        raise ValueError("flaky")
                    return tag

                ctx.step(
                    fn,
                    name=tag,
                    config=StepConfig(
                        retry_strategy=lambda e, a: RetryDecision(True, Duration.from_seconds(1))
                        if a <= 5
                        else RetryDecision(False, Duration.from_seconds(0)),
                        step_semantics=StepSemantics.AT_MOST_ONCE_PER_RETRY
                        if at_most_once
                        else StepSemantics.AT_LEAST_ONCE_PER_RETRY,
                    ),
                )
            elif k == "step_fail":
                tag = node[1]

                def fn2(sc, tag=tag):
                    call_log(sc.logger, tag + ":in", "step")
                    raise ValueError("permanent")

                try:
                    ctx.step(
                        fn2,
                        name=tag,
                        config=StepConfig(
                            retry_strategy=lambda e, a: RetryDecision(False, Duration.from_seconds(0))
                        ),
                    )
                except Exception:  # noqa: BLE001
                    pass
            elif k == "wait":
                ctx.wait(Duration.from_seconds(5))
            elif k == "cb":
                cb = ctx.create_callback(name="cb")
                # log calls between create and result are part of the callback unit: exempt
                self.log(ctx, "X" + node[1], enclosing)
                try:
                    cb.result()
                except Exception:  # noqa: BLE001
                    pass
            elif k == "wfc":
                tag = node[1]

                def submitter(cbid, wctx, tag=tag):
                    call_log(wctx.logger, tag + ":in", "step")

                try:
                    ctx.wait_for_callback(submitter, name=tag)
                except Exception:  # noqa: BLE001
                    pass
            elif k == "invoke":
                try:
                    ctx.invoke("other-fn", {"a": 1}, name="inv")
                except Exception:  # noqa: BLE001
                    pass
            elif k == "wfcond":
                _, tag, need = node

                def check(state, cctx, tag=tag):
                    call_log(cctx.logger, tag + ":in", "step")
                    return state + 1

                def strategy(state, attempt, need=need):
                    if state >= need:
                        return WaitForConditionDecision.stop_polling()
                    return WaitForConditionDecision.continue_waiting(Duration.from_seconds(1))

                ctx.wait_for_condition(
                    check,
                    WaitForConditionConfig(wait_strategy=strategy, initial_state=0),
                    name=tag,
                )
            elif k in ("child", "bigchild", "child_fail"):
                sub = node[1]

                def body(c, sub=sub, k=k):
                    self.run(c, sub, enclosing="child")
                    if k == "bigchild":
                        return "x" * (300 * 1024)
                    if k == "child_fail":
                        raise ValueError("child failed")
                    return "small"

                try:
                    ctx.run_in_child_context(body, name=k)
                except Exception:  # noqa: BLE001
                    if k != "child_fail":
                        raise
            elif k == "map":
                _, n, inner, big = node

                def item_fn(c, item, idx, items, inner=inner, big=big):
                    call_log(c.logger, "Xmap", None)
                    if inner == "step":
                        c.step(lambda sc: (call_log(sc.logger, "Xmapstep", None), idx)[1], name="ms")
                    elif inner == "wait":
                        c.wait(Duration.from_seconds(3))
                    return ("y" * (120 * 1024)) if big else idx

                ctx.map(list(range(n)), item_fn, name="map")
            elif k == "mapnest":
                _, n, sub = node

                def item_fn2(c, item, idx, items, sub=sub):
                    # every log inside is exempt (prefix X), so rename on the fly
                    Runner(_xify(sub)).run(c, enclosing=None)
                    return idx

                ctx.map(list(range(n)), item_fn2, name="mapnest")
            elif k == "parallel":
                _, n, inner, minsucc = node

                def mk(i, inner=inner, n=n):
                    def br(c):
                        call_log(c.logger, "Xpar", None)
                        if inner == "step":
                            c.step(lambda sc: (call_log(sc.logger, "Xparstep", None), i)[1], name="ps")
                        elif inner == "wait" and i % 2 == 1:
                            c.wait(Duration.from_seconds(3))
                        elif inner == "bigwait":
                            if i % 2 == 1:
                                c.wait(Duration.from_seconds(3))
                            return "z" * (140 * 1024)
                        elif inner == "failwfc":
                            if i == 0:
                                raise ValueError("branch failed")
                            c.wait_for_callback(lambda cbid, w: call_log(w.logger, "Xsub", None), name="w")
                        return i

                    return br

                cfg = (
                    ParallelConfig(completion_config=CompletionConfig(min_successful=minsucc))
                    if minsucc
                    else None
                )
                ctx.parallel([mk(i) for i in range(n)], name="par", config=cfg)
            else:
                raise AssertionError(k)


def _xify(prog):
    out = []
    for node in prog:
        k = node[0]
        if k == "log":
            out.append(("log", "X" + node[1]))
        elif k == "step":
            out.append(("step", "X" + node[1], 0, node[3]))
        elif k == "step_fail":
            out.append(("step_fail", "X" + node[1]))
        elif k in ("wfc",):
            out.append((k, "X" + node[1]))
        elif k == "wfcond":
            out.append((k, "X" + node[1], 1))
        elif k == "cb":
            out.append(node)
        elif k in ("child", "bigchild", "child_fail"):
            out.append((k, _xify(node[1])))
        elif k == "mapnest":
            out.append((k, node[1], _xify(node[2])))
        else:
            out.append(node)
    return out


def log_tags(prog):
    out = []
    for node in prog:
        if node[0] == "log":
            out.append(node[1])
        elif node[0] in ("child", "bigchild", "child_fail"):
            out.extend(log_tags(node[1]))
    return out


# --------------------------------------------------------------------------------------
# one invocation + oracle
# --------------------------------------------------------------------------------------
def lambda_ctx():
    lc = Mock()
    lc.aws_request_id = "rid"
    lc.client_context = None
    lc.identity = None
    lc._epoch_deadline_time_in_ms = 0  # noqa: SLF001
    lc.invoked_function_arn = "arn"
    lc.tenant_id = None
    return lc


def invoke_once(backend: Backend, runner: Runner, page_mode: str, use_set_logger=True):
    """Runs one invocation. Returns (status, violations, events)."""
    del EVENTS[:]
    completed_before = backend.completed_ids()
    hist_before = list(backend.history())
    first_invocation = len(backend.history()) == 1
    first, marker = backend.paginate(page_mode)
    capture = Capture(EVENTS, EV_LOCK)

    @durable_execution
    def handler(event, ctx: DurableContext):
        ctx.set_logger(capture)
        runner.run(ctx)
        return "done"

    inp = DurableExecutionInvocationInputWithClient(
        durable_execution_arn=ARN,
        checkpoint_token="tok-start",
        initial_execution_state=InitialExecutionState(operations=list(first), next_marker=marker),
        service_client=backend,
    )
    status = None
    try:
        out = handler(inp, lambda_ctx())
        status = out["Status"]
    except Crash:
        status = "CRASH"
    except RuntimeError as e:
        if "simulated crash" in str(e):
            status = "CRASH"
        else:
            raise
    with EV_LOCK:
        events = list(EVENTS)
    violations = check(events, completed_before, first_invocation, hist_before)
    return status, violations, events


def _descendants(hist, oid):
    kids = {}
    for o in hist:
        if o.parent_id:
            kids.setdefault(o.parent_id, []).append(o.operation_id)
    out, todo = set(), [oid]
    while todo:
        for c in kids.get(todo.pop(), ()):
            if c not in out:
                out.add(c)
                todo.append(c)
    return out


def check(events, completed_before, first_invocation, hist_before=()):
    violations = []
    # position of the last exit of an operation that was complete before the invocation began
    # (a map/parallel block is a unit: it counts as soon as anything inside it was complete)
    last_completed_exit = -1
    for i, ev in enumerate(events):
        if ev[0] != "exit":
            continue
        if ev[1] in completed_before or (
            ev[2] in ("map", "parallel")
            and _descendants(hist_before, ev[1]) & completed_before
        ):
            last_completed_exit = i
    i = 0
    n = len(events)
    while i < n:
        ev = events[i]
        if ev[0] == "call":
            tag = ev[1]
            emitted = i + 1 < n and events[i + 1][0] == "emit" and events[i + 1][1] == tag
            if tag.startswith("X"):
                # inside a unit: only the "audible afterwards / first invocation" direction is checked
                if (first_invocation or i > last_completed_exit) and not emitted:
                    violations.append(f"MUTED   {tag}: (in unit) should be emitted (event #{i})")
            else:
                should_emit = first_invocation or i > last_completed_exit
                if should_emit and not emitted:
                    violations.append(f"MUTED   {tag}: should be emitted (event #{i})")
                if not should_emit and emitted:
                    violations.append(f"AUDIBLE {tag}: should be silent (event #{i})")
            if emitted:
                extra = events[i + 1][2]
                if extra.get("executionArn") != ARN:
                    violations.append(f"NOARN   {tag}: {extra}")
                if ev[2] == "step":
                    if not extra.get("operationId") or "attempt" not in extra:
                        violations.append(f"NOIDS   {tag}: {extra}")
                if ev[2] == "child" and not extra.get("parentId"):
                    violations.append(f"NOPARENT {tag}: {extra}")
        i += 1
    return violations


def run_execution(seed: int, verbose=False, max_invocations=40):
    rng = random.Random(seed)
    prog = gen_program(rng)
    tags = log_tags(prog)
    crash_at = rng.choice(tags) if tags and rng.random() < 0.4 else None
    runner = Runner(prog, crash_at=crash_at)
    backend = Backend(rng)
    all_violations = []
    for inv in range(max_invocations):
        mode = rng.choice(["all", "first_only_exec", "empty_first", "one_per_page", "random", "random"])
        if rng.random() < 0.1:
            backend.fail_checkpoint_at = backend.checkpoint_calls + rng.randint(1, 4)
        else:
            backend.fail_checkpoint_at = None
        status, violations, events = invoke_once(backend, runner, mode)
        if verbose:
            print(f"  inv {inv} mode={mode} status={status} ops={len(backend.history())}")
        if violations:
            all_violations.append((inv, mode, status, violations, events, list(backend.history())))
        if status in ("SUCCEEDED", "FAILED"):
            break
        if status == "PENDING" or rng.random() < 0.5:
            backend.deliver()
    else:
        all_violations.append((inv, "-", "NO-TERMINATION", ["did not terminate"], [], []))
    return prog, crash_at, all_violations


if __name__ == "__main__":
    import logging

    logging.disable(logging.CRITICAL)
    start = int(sys.argv[1]) if len(sys.argv) > 1 else 0
    count = int(sys.argv[2]) if len(sys.argv) > 2 else 200
    bad = 0
    for seed in range(start, start + count):
        try:
            prog, crash_at, viol = run_execution(seed)
        except BaseException:  # noqa: BLE001
            print(f"seed {seed}: harness exception")
            traceback.print_exc()
            bad += 1
            continue
        if viol:
            bad += 1
            print(f"seed {seed}: crash_at={crash_at} prog={prog}")
            for inv, mode, status, v, events, hist in viol[:2]:
                print(f"   invocation {inv} mode={mode} status={status}")
                for line in v[:6]:
                    print("      ", line)
    print(f"done: {count} executions, {bad} with violations")
