"""C15 finding 2 - instances of SUBCLASSES of the supported types are accepted and silently downgraded.

Clause violated: "deserializing ... yields an equal value of the same types at every nesting level" and
"A value that cannot be reproduced exactly is rejected with a serialization error rather than silently altered".

Every type test of the default serializer is an isinstance test (`case tuple():`, `case dict():`, `case str():`,
`case int():` in serdes.TypeCodec.encode / ContainerCodec.encode / PrimitiveCodec.encode, and `isinstance(obj, str | int |
float | bool)` in serdes.SerDes.is_primitive).  So a namedtuple is written as a plain tuple, an IntEnum / StrEnum member as
a bare int / str (through the plain-JSON fast path), an OrderedDict / defaultdict / Counter as a plain dict, a list
subclass as a list...  Nothing is rejected; the decoder cannot know the original class and returns the base type.

Consequence in a workflow (part 2): the invocation that executes the step works with the step's own return value (a
namedtuple: `.total` works), the re-invocation that replays it gets a plain tuple and `.total` raises AttributeError: the
same deterministic handler SUSPENDS normally in invocation 1 and FAILS in invocation 2.
"""
from __future__ import annotations

import collections
import dataclasses
import datetime
import enum
import json
import sys
from unittest.mock import Mock

from aws_durable_execution_sdk_python.config import Duration
from aws_durable_execution_sdk_python.context import DurableContext
from aws_durable_execution_sdk_python.execution import (
    DurableExecutionInvocationInputWithClient,
    InitialExecutionState,
    durable_execution,
)
from aws_durable_execution_sdk_python.lambda_service import (
    CheckpointOutput,
    CheckpointUpdatedExecutionState,
    ContextDetails,
    ExecutionDetails,
    Operation,
    OperationAction,
    OperationStatus,
    OperationType,
    StateOutput,
    StepDetails,
    WaitDetails,
)
from aws_durable_execution_sdk_python.serdes import ExtendedTypeSerDes

# --------------------------------------------------------------------------- in-memory backend
class Backend:
    """Records checkpoints and plays them back as the history of the next invocation."""

    def __init__(self):
        self.ops: dict[str, Operation] = {
            "exec": Operation(
                operation_id="exec",
                operation_type=OperationType.EXECUTION,
                status=OperationStatus.STARTED,
                execution_details=ExecutionDetails(input_payload="{}"),
            )
        }

    def checkpoint(self, durable_execution_arn, checkpoint_token, updates, client_token=None):
        changed = []
        for u in updates:
            # the payload travels as a JSON string member of the request body
            payload = None if u.payload is None else json.loads(json.dumps(u.payload))
            status = {
                OperationAction.START: OperationStatus.STARTED,
                OperationAction.SUCCEED: OperationStatus.SUCCEEDED,
                OperationAction.FAIL: OperationStatus.FAILED,
            }[u.action]
            kw = {}
            if u.operation_type is OperationType.STEP:
                kw["step_details"] = StepDetails(attempt=1, result=payload, error=u.error)
            elif u.operation_type is OperationType.CONTEXT:
                kw["context_details"] = ContextDetails(result=payload, error=u.error)
            elif u.operation_type is OperationType.WAIT:
                kw["wait_details"] = WaitDetails(
                    scheduled_end_timestamp=datetime.datetime.now(datetime.UTC) + datetime.timedelta(hours=1)
                )
            op = Operation(
                operation_id=u.operation_id,
                operation_type=u.operation_type,
                status=status,
                parent_id=u.parent_id,
                name=u.name,
                sub_type=u.sub_type,
                **kw,
            )
            self.ops[u.operation_id] = op
            changed.append(op)
        return CheckpointOutput(
            checkpoint_token="tok",
            new_execution_state=CheckpointUpdatedExecutionState(operations=changed),
        )

    def get_execution_state(self, durable_execution_arn, checkpoint_token, next_marker, max_items=1000):
        return StateOutput(operations=[], next_marker=None)

    def timers_fire(self):
        """The service completes every started wait (time has passed) before it re-invokes the function."""
        for k, op in list(self.ops.items()):
            if op.operation_type is OperationType.WAIT and op.status is OperationStatus.STARTED:
                self.ops[k] = dataclasses.replace(op, status=OperationStatus.SUCCEEDED)

    def invoke(self, handler):
        ctx = Mock()
        ctx.aws_request_id = "req"
        ctx.client_context = None
        ctx.identity = None
        ctx._epoch_deadline_time_in_ms = 10**13
        ctx.invoked_function_arn = None
        ctx.tenant_id = None
        inp = DurableExecutionInvocationInputWithClient(
            durable_execution_arn="arn:test",
            checkpoint_token="tok",
            initial_execution_state=InitialExecutionState(operations=list(self.ops.values()), next_marker=""),
            service_client=self,
        )
        return handler(inp, ctx)


def fail(msg):
    print("FINDING 2 (C15):", msg)
    sys.exit(1)


def same_types(a, b):
    """equal AND of the same types at every nesting level"""
    if type(a) is not type(b):
        return False
    if isinstance(a, list | tuple):
        return len(a) == len(b) and all(same_types(x, y) for x, y in zip(a, b))
    if isinstance(a, dict):
        return list(a) == list(b) and all(same_types(a[k], b[k]) for k in a)
    return a == b


class Invoice(collections.namedtuple("Invoice", "customer total")):
    __slots__ = ()


class Color(enum.IntEnum):
    RED = 1


class Level(enum.StrEnum):
    HIGH = "high"


class Stack(list):
    pass


problems = []

# --------------------------------------------------------------------------- part 1: the serializer itself
sd = ExtendedTypeSerDes()
cases = {
    "namedtuple": Invoice("acme", 12),
    "IntEnum member": Color.RED,
    "StrEnum member": Level.HIGH,
    "OrderedDict": collections.OrderedDict(a=1),
    "defaultdict": collections.defaultdict(list, a=[1]),
    "Counter": collections.Counter("aab"),
    "list subclass": Stack([1, 2]),
    "nested": {"invoices": [Invoice("acme", 12)], "level": Level.HIGH},
}
for name, value in cases.items():
    try:
        text = sd.serialize(value)
    except Exception as e:  # a rejection would be the behaviour the property asks for
        print(f"part 1: {name:15} rejected with {type(e).__name__} (fine)")
        continue
    back = sd.deserialize(text)
    ok = same_types(value, back)
    print(f"part 1: {name:15} accepted, text={text}  ->  {back!r} ({type(back).__name__}) {'ok' if ok else 'ALTERED'}")
    if not ok:
        problems.append(f"{name}: {value!r} ({type(value).__name__}) accepted and returned as {back!r} ({type(back).__name__})")

# behaviour that is lost, not only the class object
dd = sd.deserialize(sd.serialize(collections.defaultdict(list, a=[1])))
try:
    dd["missing"].append(1)
except KeyError:
    problems.append("defaultdict(list) comes back as a dict: d['missing'] now raises KeyError")

# --------------------------------------------------------------------------- part 2: first run vs replay of one step
totals = []


@durable_execution
def handler(event, context: DurableContext):
    invoice = context.step(lambda _ctx: Invoice("acme", 12), name="price")
    totals.append(invoice.total)  # works with what the step returned ...
    context.wait(Duration.from_seconds(60), name="cool-down")
    return "billed"


backend = Backend()
out1 = backend.invoke(handler)  # runs the step, starts the wait, suspends
backend.timers_fire()
out2 = backend.invoke(handler)  # replays the step from the recorded history
print("part 2: invocation 1 ->", out1.get("Status"))
print("part 2: invocation 2 ->", out2.get("Status"), out2.get("Result"), out2.get("Error"))
assert out1["Status"] == "PENDING", out1
if out2["Status"] != "SUCCEEDED":
    problems.append(
        "workflow `invoice = context.step(-> Invoice namedtuple); invoice.total; context.wait(...)` suspends normally in "
        f"invocation 1 and ends {out2['Status']} in invocation 2 (replay): {out2.get('Error')}"
    )

if problems:
    fail("subclass instances are accepted and silently downgraded to the base type:\n  - " + "\n  - ".join(problems))
print("no violation")
