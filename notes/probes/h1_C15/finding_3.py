"""C15 finding 3 - a BatchResult whose item carries an ErrorObject with no fields set does not round-trip.

Clause violated: "... and batch results of these - deserializing the serialized text yields an equal value".

serdes.ContainerCodec.encode writes a BatchResult through BatchResult.to_dict(); BatchItem.to_dict() writes
`"error": self.error.to_dict() if self.error else None`, and ErrorObject.to_dict() omits every None field, so an
ErrorObject(message=None, type=None, data=None, stack_trace=None) becomes `{}`.  On the way back
BatchItem.from_dict() does `ErrorObject.from_dict(data["error"]) if data.get("error") else None`: the empty dict is falsy,
the error becomes None.  The BatchResult is accepted (no SerDesError) and comes back unequal; the derived views change
too: get_errors() / failed() lose the item and throw_if_error() stops raising.
(All four ErrorObject fields are declared Optional; an error without details is what a failed operation can carry.)
"""
from __future__ import annotations

import dataclasses
import datetime
import json
import sys
from unittest.mock import Mock

from aws_durable_execution_sdk_python.config import Duration
from aws_durable_execution_sdk_python.context import DurableContext
from aws_durable_execution_sdk_python.execution import (
    DurableExecutionInvocationInputWithClient,
    InitialExecutionState,
    durable_execution,
)
from aws_durable_execution_sdk_python.lambda_service import (
    CheckpointOutput,
    CheckpointUpdatedExecutionState,
    ContextDetails,
    ErrorObject,
    ExecutionDetails,
    Operation,
    OperationAction,
    OperationStatus,
    OperationType,
    StateOutput,
    StepDetails,
    WaitDetails,
)
from aws_durable_execution_sdk_python.serdes import ExtendedTypeSerDes, deserialize, serialize

# --------------------------------------------------------------------------- in-memory backend
class Backend:
    """Records checkpoints and plays them back as the history of the next invocation."""

    def __init__(self):
        self.ops: dict[str, Operation] = {
            "exec": Operation(
                operation_id="exec",
                operation_type=OperationType.EXECUTION,
                status=OperationStatus.STARTED,
                execution_details=ExecutionDetails(input_payload="{}"),
            )
        }

    def checkpoint(self, durable_execution_arn, checkpoint_token, updates, client_token=None):
        changed = []
        for u in updates:
            # the payload travels as a JSON string member of the request body
            payload = None if u.payload is None else json.loads(json.dumps(u.payload))
            status = {
                OperationAction.START: OperationStatus.STARTED,
                OperationAction.SUCCEED: OperationStatus.SUCCEEDED,
                OperationAction.FAIL: OperationStatus.FAILED,
            }[u.action]
            kw = {}
            if u.operation_type is OperationType.STEP:
                kw["step_details"] = StepDetails(attempt=1, result=payload, error=u.error)
            elif u.operation_type is OperationType.CONTEXT:
                kw["context_details"] = ContextDetails(result=payload, error=u.error)
            elif u.operation_type is OperationType.WAIT:
                kw["wait_details"] = WaitDetails(
                    scheduled_end_timestamp=datetime.datetime.now(datetime.UTC) + datetime.timedelta(hours=1)
                )
            op = Operation(
                operation_id=u.operation_id,
                operation_type=u.operation_type,
                status=status,
                parent_id=u.parent_id,
                name=u.name,
                sub_type=u.sub_type,
                **kw,
            )
            self.ops[u.operation_id] = op
            changed.append(op)
        return CheckpointOutput(
            checkpoint_token="tok",
            new_execution_state=CheckpointUpdatedExecutionState(operations=changed),
        )

    def get_execution_state(self, durable_execution_arn, checkpoint_token, next_marker, max_items=1000):
        return StateOutput(operations=[], next_marker=None)

    def timers_fire(self):
        """The service completes every started wait (time has passed) before it re-invokes the function."""
        for k, op in list(self.ops.items()):
            if op.operation_type is OperationType.WAIT and op.status is OperationStatus.STARTED:
                self.ops[k] = dataclasses.replace(op, status=OperationStatus.SUCCEEDED)

    def invoke(self, handler):
        ctx = Mock()
        ctx.aws_request_id = "req"
        ctx.client_context = None
        ctx.identity = None
        ctx._epoch_deadline_time_in_ms = 10**13
        ctx.invoked_function_arn = None
        ctx.tenant_id = None
        inp = DurableExecutionInvocationInputWithClient(
            durable_execution_arn="arn:test",
            checkpoint_token="tok",
            initial_execution_state=InitialExecutionState(operations=list(self.ops.values()), next_marker=""),
            service_client=self,
        )
        return handler(inp, ctx)

from aws_durable_execution_sdk_python.concurrency.models import (  # noqa: E402
    BatchItem,
    BatchItemStatus,
    BatchResult,
    CompletionReason,
)
from aws_durable_execution_sdk_python.exceptions import CallableRuntimeError  # noqa: E402


def fail(msg):
    print("FINDING 3 (C15):", msg)
    sys.exit(1)


problems = []


def make():
    return BatchResult(
        [
            BatchItem(0, BatchItemStatus.SUCCEEDED, result=("ok", 1)),
            BatchItem(1, BatchItemStatus.FAILED, error=ErrorObject(message=None, type=None, data=None, stack_trace=None)),
        ],
        CompletionReason.ALL_COMPLETED,
    )


# --------------------------------------------------------------------------- part 1: the serializer itself
sd = ExtendedTypeSerDes()
value = make()
text = sd.serialize(value)  # accepted
back = sd.deserialize(text)
print("part 1: text =", text)
print("part 1: item[1].error before:", value.all[1].error, "| after:", back.all[1].error)
if back != value:
    problems.append(f"BatchResult != after round-trip: item 1 error {value.all[1].error!r} -> {back.all[1].error!r}")
if len(back.get_errors()) != len(value.get_errors()):
    problems.append(f"get_errors(): {len(value.get_errors())} error before, {len(back.get_errors())} after")


def raises(br):
    try:
        br.throw_if_error()
    except CallableRuntimeError:
        return True
    return False


if raises(value) != raises(back):
    problems.append(f"throw_if_error() raises before the round-trip ({raises(value)}) but not after ({raises(back)})")

# same thing one level down (nested in list / dict / tuple) and through the module level helpers
nested = {"r": [make(), (make(),)]}
if deserialize(None, serialize(None, nested, "op", "arn"), "op", "arn") != nested:
    problems.append("nested BatchResult inside dict/list/tuple does not round-trip either")

# control: as soon as one field is set (even to the empty string) the round-trip is exact
ctl = BatchResult([BatchItem(0, BatchItemStatus.FAILED, error=ErrorObject("", None, None, None))], CompletionReason.ALL_COMPLETED)
assert sd.deserialize(sd.serialize(ctl)) == ctl

# --------------------------------------------------------------------------- part 2: a real step, first run vs replay
seen = []


@durable_execution
def handler(event, context: DurableContext):
    summary = context.step(lambda _ctx: make(), name="collect")
    seen.append(summary)
    context.wait(Duration.from_seconds(60), name="pause")
    return len(summary.get_errors())


backend = Backend()
out1 = backend.invoke(handler)
backend.timers_fire()
out2 = backend.invoke(handler)
print("part 2: invocation 1 ->", out1.get("Status"), "errors seen:", len(seen[0].get_errors()))
print("part 2: invocation 2 ->", out2.get("Status"), "errors seen:", len(seen[1].get_errors()), "handler result", out2.get("Result"))
assert out1["Status"] == "PENDING" and out2["Status"] == "SUCCEEDED", (out1, out2)
if seen[0] != seen[1]:
    problems.append(
        "step result differs between the run that executed it and the replay: "
        f"{len(seen[0].get_errors())} error(s) vs {len(seen[1].get_errors())}"
    )

if problems:
    fail("BatchResult with a field-less ErrorObject is accepted and silently altered:\n  - " + "\n  - ".join(problems))
print("no violation")
