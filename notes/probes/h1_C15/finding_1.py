"""C15 finding 1 - a str holding a high surrogate directly followed by a low surrogate is silently altered.

Clause violated: "deserializing the serialized text yields an equal value ... including ... lone surrogates" and
"A value that cannot be reproduced exactly is rejected with a serialization error rather than silently altered".

ExtendedTypeSerDes.serialize() writes strings with json.dumps(..., ensure_ascii=True): every surrogate code point is
written as a \\uXXXX escape.  json.loads() joins an escaped high surrogate that is directly followed by an escaped low
surrogate into ONE astral code point, so the two-character str '\\ud83d\\ude00' comes back as the one-character
str '\\U0001f600'.  The value is accepted, not rejected, and comes back different (other length, other code points, !=).
Used as dict keys, two distinct keys collapse into one and an entry is lost.

Part 1 drives the serializer directly, part 2 drives a real step through durable_execution with an in-memory backend:
the invocation that executes the step hands the step's own return value to the workflow, the re-invocation (replay from
the recorded history after a wait) hands it a different string.
"""
from __future__ import annotations

import dataclasses
import datetime
import json
import sys
from unittest.mock import Mock

from aws_durable_execution_sdk_python.config import Duration
from aws_durable_execution_sdk_python.context import DurableContext
from aws_durable_execution_sdk_python.execution import (
    DurableExecutionInvocationInputWithClient,
    InitialExecutionState,
    durable_execution,
)
from aws_durable_execution_sdk_python.lambda_service import (
    CheckpointOutput,
    CheckpointUpdatedExecutionState,
    ContextDetails,
    ErrorObject,
    ExecutionDetails,
    Operation,
    OperationAction,
    OperationStatus,
    OperationType,
    StateOutput,
    StepDetails,
    WaitDetails,
)
from aws_durable_execution_sdk_python.serdes import ExtendedTypeSerDes, deserialize, serialize

# --------------------------------------------------------------------------- in-memory backend
class Backend:
    """Records checkpoints and plays them back as the history of the next invocation."""

    def __init__(self):
        self.ops: dict[str, Operation] = {
            "exec": Operation(
                operation_id="exec",
                operation_type=OperationType.EXECUTION,
                status=OperationStatus.STARTED,
                execution_details=ExecutionDetails(input_payload="{}"),
            )
        }

    def checkpoint(self, durable_execution_arn, checkpoint_token, updates, client_token=None):
        changed = []
        for u in updates:
            # the payload travels as a JSON string member of the request body
            payload = None if u.payload is None else json.loads(json.dumps(u.payload))
            status = {
                OperationAction.START: OperationStatus.STARTED,
                OperationAction.SUCCEED: OperationStatus.SUCCEEDED,
                OperationAction.FAIL: OperationStatus.FAILED,
            }[u.action]
            kw = {}
            if u.operation_type is OperationType.STEP:
                kw["step_details"] = StepDetails(attempt=1, result=payload, error=u.error)
            elif u.operation_type is OperationType.CONTEXT:
                kw["context_details"] = ContextDetails(result=payload, error=u.error)
            elif u.operation_type is OperationType.WAIT:
                kw["wait_details"] = WaitDetails(
                    scheduled_end_timestamp=datetime.datetime.now(datetime.UTC) + datetime.timedelta(hours=1)
                )
            op = Operation(
                operation_id=u.operation_id,
                operation_type=u.operation_type,
                status=status,
                parent_id=u.parent_id,
                name=u.name,
                sub_type=u.sub_type,
                **kw,
            )
            self.ops[u.operation_id] = op
            changed.append(op)
        return CheckpointOutput(
            checkpoint_token="tok",
            new_execution_state=CheckpointUpdatedExecutionState(operations=changed),
        )

    def get_execution_state(self, durable_execution_arn, checkpoint_token, next_marker, max_items=1000):
        return StateOutput(operations=[], next_marker=None)

    def timers_fire(self):
        """The service completes every started wait (time has passed) before it re-invokes the function."""
        for k, op in list(self.ops.items()):
            if op.operation_type is OperationType.WAIT and op.status is OperationStatus.STARTED:
                self.ops[k] = dataclasses.replace(op, status=OperationStatus.SUCCEEDED)

    def invoke(self, handler):
        ctx = Mock()
        ctx.aws_request_id = "req"
        ctx.client_context = None
        ctx.identity = None
        ctx._epoch_deadline_time_in_ms = 10**13
        ctx.invoked_function_arn = None
        ctx.tenant_id = None
        inp = DurableExecutionInvocationInputWithClient(
            durable_execution_arn="arn:test",
            checkpoint_token="tok",
            initial_execution_state=InitialExecutionState(operations=list(self.ops.values()), next_marker=""),
            service_client=self,
        )
        return handler(inp, ctx)


def fail(msg):
    print("FINDING 1 (C15):", msg)
    sys.exit(1)


problems = []

# --------------------------------------------------------------------------- part 1: the serializer itself
HI, LO = "\ud83d", "\ude00"  # two lone surrogates: a perfectly legal Python str of length 2
value = HI + LO
sd = ExtendedTypeSerDes()

text = sd.serialize(value)  # accepted - no SerDesError
back = sd.deserialize(text)
print("part 1: value=%a len=%d  text=%s  back=%a len=%d" % (value, len(value), text, back, len(back)))
if back != value:
    problems.append(f"str {value!a} (len 2) serialized to {text} deserializes to {back!a} (len {len(back)})")

for container in ([value, 1], (value,), {"k": value}, {"k": [(value,)]}):
    got = sd.deserialize(sd.serialize(container))
    if got != container:
        problems.append(f"nested: {container!a} -> {got!a}")

keys = {HI + LO: "two lone surrogates", "\U0001f600": "one astral char"}
got = sd.deserialize(sd.serialize(keys))
print("part 1: dict with 2 distinct keys ->", ascii(got))
if got != keys:
    problems.append(f"dict {keys!a} (2 entries) -> {got!a} ({len(got)} entry): an entry was dropped")

# control: surrogates that are really alone, or in the other order, do round-trip
for ctl in (HI, LO, LO + HI, HI + "x" + LO):
    assert sd.deserialize(sd.serialize(ctl)) == ctl, ctl

# the module level helpers used by every operation behave the same
got = deserialize(None, serialize(None, value, "op", "arn"), "op", "arn")
if got != value:
    problems.append(f"serdes.serialize/deserialize(serdes=None): {value!a} -> {got!a}")

# --------------------------------------------------------------------------- part 2: a real step, first run vs replay
seen = []


@durable_execution
def handler(event, context: DurableContext):
    r = context.step(lambda _ctx: HI + LO, name="make")
    seen.append(r)
    context.wait(Duration.from_seconds(60), name="pause")
    return len(r)


backend = Backend()
out1 = backend.invoke(handler)  # executes the step, starts the wait, suspends
backend.timers_fire()
out2 = backend.invoke(handler)  # re-invocation with the recorded history: the step is replayed
print("part 2: invocation 1 ->", out1.get("Status"), "step gave", ascii(seen[0]))
print("part 2: invocation 2 ->", out2.get("Status"), "step gave", ascii(seen[1]), "handler result", out2.get("Result"))
assert out1["Status"] == "PENDING" and out2["Status"] == "SUCCEEDED", (out1, out2)
if seen[0] != seen[1]:
    problems.append(
        f"step result differs between the run that executed it and the replay: {seen[0]!a} (len {len(seen[0])}) vs "
        f"{seen[1]!a} (len {len(seen[1])})"
    )

if problems:
    fail("adjacent lone surrogates are silently merged by the default serializer:\n  - " + "\n  - ".join(problems))
print("no violation")
