"""In-memory fake backend + driver for the durable_execution wrapper (scratch tooling, not a finding)."""

from __future__ import annotations

import datetime
import itertools
import threading
from dataclasses import replace

from aws_durable_execution_sdk_python.execution import (
    DurableExecutionInvocationInputWithClient,
    InitialExecutionState,
)
from aws_durable_execution_sdk_python.lambda_service import (
    CallbackDetails,
    ChainedInvokeDetails,
    CheckpointOutput,
    CheckpointUpdatedExecutionState,
    ContextDetails,
    ExecutionDetails,
    Operation,
    OperationAction,
    OperationStatus,
    OperationType,
    StateOutput,
    StepDetails,
    WaitDetails,
)

ARN = "arn:aws:lambda:us-east-1:123456789012:function:f:1/durable-execution/x/y"


class Backend:
    def __init__(self, input_payload: str = "{}", page_size: int | None = None):
        self.lock = threading.Lock()
        self.ops: dict[str, Operation] = {}
        self.order: list[str] = []
        self.exec_op = Operation(
            operation_id="exec-0",
            operation_type=OperationType.EXECUTION,
            status=OperationStatus.STARTED,
            execution_details=ExecutionDetails(input_payload=input_payload),
        )
        self.calls: list[list] = []  # all update batches ever received
        self.invocation_calls: list[list] = []  # batches of the current invocation
        self.execution_result: tuple | None = None
        self.tok = itertools.count()
        self.page_size = page_size
        self.hook = None  # callable(update) called before applying each update
        self.time_aware = False
        self.prune = False

    # ---- service client protocol
    def checkpoint(self, durable_execution_arn, checkpoint_token, updates, client_token):
        with self.lock:
            self.calls.append(list(updates))
            self.invocation_calls.append(list(updates))
            changed = []
            if self.time_aware:
                now = datetime.datetime.now(tz=datetime.UTC)
                for i, op in list(self.ops.items()):
                    if (
                        op.operation_type is OperationType.WAIT
                        and op.status is OperationStatus.STARTED
                        and op.wait_details.scheduled_end_timestamp <= now
                    ):
                        self.ops[i] = replace(op, status=OperationStatus.SUCCEEDED)
                        changed.append(self.ops[i])
                    if (
                        op.operation_type is OperationType.STEP
                        and op.status is OperationStatus.PENDING
                        and op.step_details.next_attempt_timestamp <= now
                    ):
                        self.ops[i] = replace(op, status=OperationStatus.READY)
                        changed.append(self.ops[i])
            for u in updates:
                if self.hook:
                    self.hook(u)
                op = self._apply(u)
                if op is not None:
                    changed.append(op)
            return CheckpointOutput(
                checkpoint_token=f"tok-{next(self.tok)}",
                new_execution_state=CheckpointUpdatedExecutionState(
                    operations=[self._wire(o) for o in changed], next_marker=None
                ),
            )

    def get_execution_state(self, durable_execution_arn, checkpoint_token, next_marker, max_items=1000):
        start = int(next_marker)
        allops = self._history()
        page = allops[start : start + self.page_size]
        nxt = start + self.page_size
        return StateOutput(operations=page, next_marker=str(nxt) if nxt < len(allops) else None)

    # ---- helpers
    @staticmethod
    def _wire(op: Operation) -> Operation:
        return Operation.from_json_dict(op.to_json_dict())

    def _history(self):
        ids = list(self.order)
        if self.prune:
            def hidden(i):
                cur = self.ops[i].parent_id
                while cur:
                    p = self.ops.get(cur)
                    if p is None:
                        return False
                    if p.status in (OperationStatus.SUCCEEDED, OperationStatus.FAILED) and not (
                        p.context_details and p.context_details.replay_children
                    ):
                        return True
                    cur = p.parent_id
                return False
            ids = [i for i in ids if not hidden(i)]
        return [self._wire(self.exec_op)] + [self._wire(self.ops[i]) for i in ids]

    def _apply(self, u):
        now = datetime.datetime.now(tz=datetime.UTC)
        t, a = u.operation_type, u.action
        if t is OperationType.EXECUTION:
            self.execution_result = (a, u.payload, u.error)
            return None
        old = self.ops.get(u.operation_id)
        if old is not None and old.status in (
            OperationStatus.SUCCEEDED,
            OperationStatus.FAILED,
        ):
            raise AssertionError(f"update {a} for terminal operation {u.operation_id} {u.name}")
        base = old or Operation(
            operation_id=u.operation_id,
            operation_type=t,
            status=OperationStatus.STARTED,
            parent_id=u.parent_id,
            name=u.name,
            sub_type=u.sub_type,
            start_timestamp=now,
        )
        if t is OperationType.CONTEXT:
            if a is OperationAction.START:
                op = replace(base, status=OperationStatus.STARTED)
            elif a is OperationAction.SUCCEED:
                op = replace(
                    base,
                    status=OperationStatus.SUCCEEDED,
                    end_timestamp=now,
                    context_details=ContextDetails(
                        replay_children=bool(u.context_options and u.context_options.replay_children),
                        result=u.payload,
                    ),
                )
            else:
                op = replace(
                    base,
                    status=OperationStatus.FAILED,
                    end_timestamp=now,
                    context_details=ContextDetails(error=u.error),
                )
        elif t is OperationType.STEP:
            att = old.step_details.attempt if old and old.step_details else 0
            if a is OperationAction.START:
                op = replace(base, status=OperationStatus.STARTED, step_details=StepDetails(attempt=att))
            elif a is OperationAction.SUCCEED:
                op = replace(
                    base,
                    status=OperationStatus.SUCCEEDED,
                    end_timestamp=now,
                    step_details=StepDetails(attempt=att + 1, result=u.payload),
                )
            elif a is OperationAction.RETRY:
                delay = u.step_options.next_attempt_delay_seconds if u.step_options else 1
                op = replace(
                    base,
                    status=OperationStatus.PENDING,
                    step_details=StepDetails(
                        attempt=att + 1,
                        next_attempt_timestamp=now + datetime.timedelta(seconds=delay),
                        error=u.error,
                        result=u.payload,
                    ),
                )
            else:
                op = replace(
                    base,
                    status=OperationStatus.FAILED,
                    end_timestamp=now,
                    step_details=StepDetails(attempt=att + 1, error=u.error),
                )
        elif t is OperationType.WAIT:
            secs = u.wait_options.wait_seconds if u.wait_options else 1
            op = replace(
                base,
                status=OperationStatus.STARTED,
                wait_details=WaitDetails(scheduled_end_timestamp=now + datetime.timedelta(seconds=secs)),
            )
        elif t is OperationType.CALLBACK:
            op = replace(
                base,
                status=OperationStatus.STARTED,
                callback_details=CallbackDetails(callback_id=f"cb-{u.operation_id[:8]}"),
            )
        elif t is OperationType.CHAINED_INVOKE:
            op = replace(base, status=OperationStatus.STARTED, chained_invoke_details=ChainedInvokeDetails())
        else:
            raise AssertionError(t)
        if u.operation_id not in self.ops:
            self.order.append(u.operation_id)
        self.ops[u.operation_id] = op
        return op

    # ---- "time passes / the backend delivers"
    def complete_waits(self):
        with self.lock:
            for i, op in self.ops.items():
                if op.operation_type is OperationType.WAIT and op.status is OperationStatus.STARTED:
                    self.ops[i] = replace(op, status=OperationStatus.SUCCEEDED)
                if op.operation_type is OperationType.STEP and op.status is OperationStatus.PENDING:
                    self.ops[i] = replace(op, status=OperationStatus.READY)

    def complete_callbacks(self, result: str):
        with self.lock:
            for i, op in self.ops.items():
                if op.operation_type is OperationType.CALLBACK and op.status is OperationStatus.STARTED:
                    self.ops[i] = replace(
                        op,
                        status=OperationStatus.SUCCEEDED,
                        callback_details=replace(op.callback_details, result=result),
                    )

    def complete_invokes(self, result: str):
        with self.lock:
            for i, op in self.ops.items():
                if op.operation_type is OperationType.CHAINED_INVOKE and op.status is OperationStatus.STARTED:
                    self.ops[i] = replace(
                        op, status=OperationStatus.SUCCEEDED, chained_invoke_details=ChainedInvokeDetails(result=result)
                    )

    def invoke(self, handler, timeout: float = 120.0):
        """One invocation of the decorated handler with the current history. Returns the response dict."""
        self.invocation_calls = []
        allops = self._history()
        if self.page_size:
            first, marker = allops[: self.page_size], (str(self.page_size) if len(allops) > self.page_size else "")
        else:
            first, marker = allops, ""
        event = DurableExecutionInvocationInputWithClient(
            durable_execution_arn=ARN,
            checkpoint_token=f"tok-{next(self.tok)}",
            initial_execution_state=InitialExecutionState(operations=first, next_marker=marker),
            service_client=self,
        )
        out: dict = {}

        def run():
            try:
                out["resp"] = handler(event, _Ctx())
            except BaseException as e:  # noqa: BLE001
                out["exc"] = e

        th = threading.Thread(target=run, daemon=True)
        th.start()
        th.join(timeout)
        if th.is_alive():
            raise AssertionError("invocation hangs")
        if "exc" in out:
            raise out["exc"]
        return out["resp"]

    def sent_updates(self):
        return [u for batch in self.invocation_calls for u in batch]


class _Ctx:
    aws_request_id = "req"
    log_group_name = None
    log_stream_name = None
    function_name = "f"
    memory_limit_in_mb = "128"
    function_version = "1"
    invoked_function_arn = "arn"
    tenant_id = None
    client_context = None
    identity = None

    def get_remaining_time_in_millis(self):
        return 100000

    def log(self, msg):
        pass
