"""C16 finding 1: a summarised (ReplayChildren) map/parallel is rebuilt IN THE CALLER'S THREAD, level inside level.

The first delivery runs every map / parallel branch in a fresh pool thread, so each nesting level starts
with an empty Python stack.  ConcurrentExecutor.replay() - used only when the map / parallel was recorded
with a summary because its result was larger than 256KB - walks the recorded branches inline, and a nested
summarised map is walked inside that walk.  A workflow of N nested map levels that completes fine (and whose
summaries are all durably recorded) therefore needs ~15*N stack frames on every later replay, and from
N ~ 66 on the replay dies with RecursionError: the invocation answers FAILED for an execution whose
summarised contexts had all been recorded SUCCEEDED.  The same program with a small (not summarised) result
replays fine at the same depth, because a context recorded in full is answered from its record.

Run:  PYTHONPATH=/tmp/wt/h3_C16/src /venv/bin/python finding_1.py
"""

from __future__ import annotations

import datetime
import itertools
import logging
import sys
import threading
from dataclasses import replace

from aws_durable_execution_sdk_python.config import Duration
from aws_durable_execution_sdk_python.execution import (
    DurableExecutionInvocationInputWithClient,
    InitialExecutionState,
    durable_execution,
)
from aws_durable_execution_sdk_python.lambda_service import (
    CheckpointOutput,
    CheckpointUpdatedExecutionState,
    ContextDetails,
    ExecutionDetails,
    Operation,
    OperationAction,
    OperationStatus,
    OperationType,
    StepDetails,
    WaitDetails,
)

logging.disable(logging.CRITICAL)
DEPTH = 80
LIMIT = 256 * 1024


class Backend:
    """Records checkpoints and plays them back as the history of the next invocation."""

    def __init__(self):
        self.ops: dict[str, Operation] = {}
        self.lock = threading.Lock()
        self.tok = itertools.count()
        self.sent: list = []

    def checkpoint(self, durable_execution_arn, checkpoint_token, updates, client_token):
        with self.lock:
            changed = []
            for u in updates:
                self.sent.append(u)
                now = datetime.datetime.now(tz=datetime.UTC)
                old = self.ops.get(u.operation_id)
                assert old is None or old.status is OperationStatus.STARTED, f"update for terminal {u.name}"
                base = old or Operation(
                    operation_id=u.operation_id,
                    operation_type=u.operation_type,
                    status=OperationStatus.STARTED,
                    parent_id=u.parent_id,
                    name=u.name,
                    sub_type=u.sub_type,
                )
                if u.operation_type is OperationType.CONTEXT and u.action is OperationAction.SUCCEED:
                    op = replace(
                        base,
                        status=OperationStatus.SUCCEEDED,
                        context_details=ContextDetails(
                            replay_children=bool(u.context_options and u.context_options.replay_children),
                            result=u.payload,
                        ),
                    )
                elif u.operation_type is OperationType.STEP and u.action is OperationAction.SUCCEED:
                    op = replace(base, status=OperationStatus.SUCCEEDED, step_details=StepDetails(attempt=1, result=u.payload))
                elif u.operation_type is OperationType.WAIT:
                    op = replace(base, wait_details=WaitDetails(scheduled_end_timestamp=now + datetime.timedelta(seconds=5)))
                elif u.action is OperationAction.START:
                    op = base
                else:
                    raise AssertionError(f"unexpected update {u.operation_type} {u.action}")
                self.ops[u.operation_id] = op
                changed.append(op)
            return CheckpointOutput(
                checkpoint_token=f"t{next(self.tok)}",
                new_execution_state=CheckpointUpdatedExecutionState(operations=changed),
            )

    def get_execution_state(self, *a, **k):
        raise AssertionError("history is not paginated here")

    def invoke(self, handler):
        self.sent = []
        history = [
            Operation(
                operation_id="exec",
                operation_type=OperationType.EXECUTION,
                status=OperationStatus.STARTED,
                execution_details=ExecutionDetails(input_payload="{}"),
            ),
            *self.ops.values(),
        ]
        event = DurableExecutionInvocationInputWithClient(
            durable_execution_arn="arn:test",
            checkpoint_token=f"t{next(self.tok)}",
            initial_execution_state=InitialExecutionState(operations=history, next_marker=""),
            service_client=self,
        )
        out = {}

        def run():
            try:
                out["r"] = handler(event, None)
            except BaseException as e:  # noqa: BLE001
                out["e"] = e

        t = threading.Thread(target=run, daemon=True)
        t.start()
        t.join(300)
        assert not t.is_alive(), "invocation hangs"
        if "e" in out:
            raise out["e"]
        return out["r"]

    def fire_timers(self):
        for i, op in self.ops.items():
            if op.operation_type is OperationType.WAIT:
                self.ops[i] = replace(op, status=OperationStatus.SUCCEEDED)


def scenario(leaf_size: int):
    """DEPTH nested maps with one item each; the innermost step returns leaf_size characters."""
    be = Backend()
    leaf_runs = []
    results = []

    def level(ctx, d):
        if d == 0:

            def leaf(_step_ctx):
                leaf_runs.append(1)
                return "x" * leaf_size

            return ctx.step(leaf, name="leaf")
        batch = ctx.map([0], lambda c, item, idx, items: level(c, d - 1), name=f"map-{d}")
        return batch.get_results()[0]

    @durable_execution
    def handler(event, ctx):
        results.append(level(ctx, DEPTH))
        ctx.wait(Duration.from_seconds(5), name="pause")  # forces a second invocation = a full replay
        return "done"

    first = be.invoke(handler)
    summarised = [
        u
        for u in be.sent
        if u.operation_type is OperationType.CONTEXT
        and u.action is OperationAction.SUCCEED
        and u.context_options
        and u.context_options.replay_children
    ]
    oversize = [u for u in be.sent if u.operation_type is OperationType.CONTEXT and len((u.payload or "").encode()) > LIMIT]
    be.fire_timers()
    second = be.invoke(handler)
    return first, second, len(summarised), oversize, list(be.sent), len(leaf_runs), results


def main():
    print(f"recursion limit {sys.getrecursionlimit()}, {DEPTH} nested maps")

    # control: small result, contexts recorded in full -> replay answers from the record
    first, second, n_sum, oversize, sent2, leaf_runs, results = scenario(leaf_size=10)
    assert first["Status"] == "PENDING" and n_sum == 0, (first, n_sum)
    assert second["Status"] == "SUCCEEDED" and not sent2 and leaf_runs == 1 and results[0] == results[1], (
        "control (small result) must replay cleanly",
        second,
    )
    print("control, result of 10 bytes   : first", first["Status"], "| replay", second["Status"])

    # oversized result: every level is recorded with a summary, the replay has to rebuild it
    first, second, n_sum, oversize, sent2, leaf_runs, results = scenario(leaf_size=LIMIT + 10)
    print(
        f"oversized, result of {LIMIT + 10} bytes: first {first['Status']} ({n_sum} contexts summarised) | replay",
        str(second)[:160],
    )
    assert first["Status"] == "PENDING", first
    assert not oversize, "an oversized payload was checkpointed"
    assert n_sum >= 2 * DEPTH, f"expected every map and every branch to be summarised, got {n_sum}"
    assert leaf_runs == 1, f"the completed step ran {leaf_runs} times"
    assert not sent2, f"the replay sent records: {[(u.name, u.action.value) for u in sent2]}"
    assert second["Status"] == "SUCCEEDED" and len(results) == 2 and results[0] == results[1], (
        "C16 violated: all summaries were recorded SUCCEEDED in the first invocation, but the replay does not "
        f"rebuild the result - the invocation answers {str(second)[:200]}"
    )
    print("OK")


if __name__ == "__main__":
    main()
