"""Demonstration for property C17 (context logger silent while replaying, audible afterwards).

A tiny in-memory durable-functions service is used to run a workflow over several invocations through
the real ``durable_execution`` wrapper.  The records that reach the user supplied logger are compared,
invocation by invocation, with what the property demands.
"""

from __future__ import annotations

import datetime
import sys
import threading
from concurrent.futures import ThreadPoolExecutor
from concurrent.futures import TimeoutError as FutureTimeout
from typing import Any
from unittest.mock import Mock

from aws_durable_execution_sdk_python.config import Duration
from aws_durable_execution_sdk_python.context import DurableContext
from aws_durable_execution_sdk_python.execution import (
    DurableExecutionInvocationInputWithClient,
    InitialExecutionState,
    durable_execution,
)
from aws_durable_execution_sdk_python.lambda_service import (
    CallbackDetails,
    ChainedInvokeDetails,
    CheckpointOutput,
    CheckpointUpdatedExecutionState,
    ContextDetails,
    ExecutionDetails,
    Operation,
    OperationAction,
    OperationStatus,
    OperationType,
    OperationUpdate,
    StateOutput,
    StepDetails,
    WaitDetails,
)

ARN = "arn:aws:lambda:us-east-1:123456789012:function:demo:exec/c17"
TIMEOUT = 30


class FakeService:
    """Keeps the operations of one durable execution and applies checkpoint updates to them."""

    def __init__(self) -> None:
        self.lock = threading.Lock()
        self.ops: dict[str, Operation] = {
            "exec": Operation(
                operation_id="exec",
                operation_type=OperationType.EXECUTION,
                status=OperationStatus.STARTED,
                execution_details=ExecutionDetails(input_payload="{}"),
            )
        }
        self.order: list[str] = ["exec"]
        self.pages: dict[str, tuple[list[Operation], str | None]] = {}
        self.token = 0

    # -- DurableServiceClient ---------------------------------------------------------------
    def checkpoint(self, durable_execution_arn, checkpoint_token, updates, client_token):
        changed: list[Operation] = []
        with self.lock:
            for update in updates:
                changed.append(self._apply(update))
            self.token += 1
            token = f"token-{self.token}"
        return CheckpointOutput(
            checkpoint_token=token,
            new_execution_state=CheckpointUpdatedExecutionState(operations=changed),
        )

    def get_execution_state(
        self, durable_execution_arn, checkpoint_token, next_marker, max_items=1000
    ):
        operations, marker = self.pages[next_marker]
        return StateOutput(operations=list(operations), next_marker=marker)

    # -- helpers ----------------------------------------------------------------------------
    def _apply(self, update: OperationUpdate) -> Operation:
        old = self.ops.get(update.operation_id)
        status = {
            OperationAction.START: OperationStatus.STARTED,
            OperationAction.SUCCEED: OperationStatus.SUCCEEDED,
            OperationAction.FAIL: OperationStatus.FAILED,
            OperationAction.RETRY: OperationStatus.PENDING,
            OperationAction.CANCEL: OperationStatus.CANCELLED,
        }[update.action]
        kwargs: dict[str, Any] = {}
        if update.operation_type is OperationType.STEP:
            attempt = old.step_details.attempt if old and old.step_details else 0
            if update.action is not OperationAction.START:
                attempt += 1
            kwargs["step_details"] = StepDetails(
                attempt=attempt, result=update.payload, error=update.error
            )
        elif update.operation_type is OperationType.CONTEXT:
            kwargs["context_details"] = ContextDetails(
                replay_children=bool(
                    update.context_options and update.context_options.replay_children
                ),
                result=update.payload,
                error=update.error,
            )
        elif update.operation_type is OperationType.WAIT:
            seconds = update.wait_options.wait_seconds if update.wait_options else 1
            kwargs["wait_details"] = WaitDetails(
                scheduled_end_timestamp=datetime.datetime.now(tz=datetime.UTC)
                + datetime.timedelta(seconds=seconds)
            )
        elif update.operation_type is OperationType.CALLBACK:
            kwargs["callback_details"] = CallbackDetails(
                callback_id=f"cb-{update.operation_id[:8]}"
            )
        elif update.operation_type is OperationType.CHAINED_INVOKE:
            kwargs["chained_invoke_details"] = ChainedInvokeDetails()
        op = Operation(
            operation_id=update.operation_id,
            operation_type=update.operation_type,
            status=status,
            parent_id=update.parent_id,
            name=update.name,
            sub_type=update.sub_type,
            **kwargs,
        )
        if update.operation_id not in self.ops:
            self.order.append(update.operation_id)
        self.ops[update.operation_id] = op
        return op

    def by_name(self, name: str) -> Operation:
        return next(op for op in self.ops.values() if op.name == name)

    def replace(self, op: Operation, **changes: Any) -> None:
        fields = {f: getattr(op, f) for f in op.__dataclass_fields__}
        fields.update(changes)
        self.ops[op.operation_id] = Operation(**fields)

    def history(self) -> list[Operation]:
        return [self.ops[i] for i in self.order]


class RecordingLogger:
    """LoggerInterface implementation that remembers (message, extra) of every emitted record."""

    def __init__(self) -> None:
        self.records: list[tuple[str, dict]] = []

    def _rec(self, msg, *args, extra=None):
        self.records.append((str(msg) % args if args else str(msg), dict(extra or {})))

    debug = info = warning = error = exception = _rec

    def messages(self) -> list[str]:
        return [m for m, _ in self.records]


def lambda_context() -> Mock:
    ctx = Mock()
    ctx.aws_request_id = "req"
    ctx.client_context = None
    ctx.identity = None
    ctx._epoch_deadline_time_in_ms = 1000000  # noqa: SLF001
    ctx.invoked_function_arn = None
    ctx.tenant_id = None
    return ctx


def invoke(handler, service: FakeService, first_page: int | None = None) -> dict:
    """Run one invocation; ``first_page`` = number of history entries put in the payload."""
    history = service.history()
    service.pages = {}
    marker = ""
    if first_page is not None and first_page < len(history):
        service.pages["page-2"] = (history[first_page:], None)
        history, marker = history[:first_page], "page-2"
    event = DurableExecutionInvocationInputWithClient(
        durable_execution_arn=ARN,
        checkpoint_token="token-0",  # noqa: S106
        initial_execution_state=InitialExecutionState(
            operations=history, next_marker=marker
        ),
        service_client=service,
    )
    with ThreadPoolExecutor(max_workers=1) as pool:
        future = pool.submit(handler, event, lambda_context())
        try:
            return future.result(timeout=TIMEOUT)
        except FutureTimeout:
            print("FAIL: invocation hung")
            sys.exit(2)



log = RecordingLogger()

@durable_execution
def workflow(event, ctx):
    ctx.set_logger(log)
    ctx.logger.info("L0")
    def child(cc):
        cc.step(lambda s: "x", name="inner-step")
        return "child-done"
    ctx.run_in_child_context(child, name="CHILD")      # completes in invocation 1 (small result)
    ctx.logger.info("L1")
    ctx.wait(Duration.from_seconds(30), name="W")      # suspends invocation 1
    ctx.logger.info("L2 - new code after the last completed operation")
    ctx.step(lambda s: (s.logger.info("in-new-step"), "y")[1], name="new-step")
    ctx.logger.info("L3")
    return "done"

if __name__ == "__main__":
    service = FakeService()
    out1 = invoke(workflow, service)
    print("invocation 1:", out1.get("Status"), log.messages())
    log.records.clear()
    service.replace(service.by_name("W"), status=OperationStatus.SUCCEEDED)
    out2 = invoke(workflow, service)
    print("invocation 2:", out2.get("Status"), log.messages())
    want = ["L2 - new code after the last completed operation", "in-new-step", "L3"]
    print("expected in invocation 2:", want)
    sys.exit(0 if log.messages() == want else 1)
