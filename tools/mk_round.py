"""Creates scratch worktrees /tmp/wt/<round>_<id> of /repo HEAD with a TASK.md for an independent mutant agent.
The task text contains only the property statement and a clause focus - nothing from /verif's checks.
usage: python3 tools/mk_round.py <round-name> <focus.json> [ids...]"""
import json, subprocess, sys
from pathlib import Path

rnd, focus_file = sys.argv[1], sys.argv[2]
only = set(sys.argv[3:])
focus = json.loads(Path(focus_file).read_text())
props = {json.loads(l)["id"]: json.loads(l) for l in Path("/verif/properties.jsonl").read_text().splitlines() if l.strip()}
TEMPLATE = """# Task for this scratch worktree ({pid})

You are working on a scratch git worktree of the Python project aws-durable-execution-sdk-python (an SDK for AWS Lambda durable
functions: a checkpoint-and-replay workflow engine with steps, waits, callbacks, invokes, map/parallel, child contexts and a
background checkpoint batcher thread). Your worktree is {wt}. Work ONLY inside {wt}. Never read, list or modify /repo or /verif.

## Running things
* Test-suite against your worktree:
  `cd {wt} && PYTHONPATH={wt}/src /venv/bin/python -m pytest -q -p no:cacheprovider -n 8 --timeout=900`   (1080 tests, ~15 s)
* Any script you write must be run with `PYTHONPATH={wt}/src`, and NOT with `src/aws_durable_execution_sdk_python` as current
  directory (it contains threading.py and types.py which would shadow the standard library).
* NEVER use `git stash` (the stash is shared between all worktrees of the repository and other agents work concurrently).
  To test the original code: `git diff -- src > patch.diff && git apply -R patch.diff`, run your demo, then `git apply patch.diff`.

## The property (must hold for the SDK)
{pid}: {title}

{statement}

{quant}

## What to deliver
Produce ONE realistic source change to the SDK (under {wt}/src) that BREAKS this property - the kind of plausible bug a developer
could introduce during a refactor, an optimisation or a small feature - such that:
 (a) the package still imports and compiles;
 (b) the full existing test-suite still passes unchanged (do not edit or add files under tests/);
 (c) the breakage needs something specific to manifest - a particular interleaving, a crash or fault at a particular point, a
     multi-step sequence of operations, a particular history handed to a re-invocation, an unusual but legal input or
     configuration, or two cooperating code sites that each look fine alone. It must NOT be something ordinary use would expose at once.
Keep the change small (a few lines, at most ~30). Prefer a subtle semantic change over deleting a whole feature.

**Where to look.** {focus}

Then write a demonstration `{wt}/demo_{pid}.py`: a small standalone program (build ExecutionState / DurableContext objects directly
with a fake service client, or drive the `durable_execution` wrapper with a `DurableExecutionInvocationInputWithClient`; look at
tests/ for how to construct such objects; force interleavings with threading.Event or by wrapping methods; use timeouts so that a
hang is detected instead of hanging the demo) that exits non-zero (assertion failure) WITH your change and exits 0 on the ORIGINAL
code, reliably. Verify both as described above (no git stash).

Files to leave in {wt}:
 - `patch.diff`  : output of `git diff -- src` (your change only; check with `git status --short` that nothing else is modified)
 - `demo_{pid}.py`
 - `meta.json`   : {{"property": "{pid}", "summary": "...what was changed and why it breaks the property...", "needs_to_manifest": "...",
                    "commands_run": ["..."], "results": "...suite result with the change, demo result with and without the change..."}}

Finish by replying with a short summary: which file/function you changed, why the property breaks, what it needs to manifest, and the
observed results (suite passes with change: yes/no; demo fails with change: yes/no; demo passes on original: yes/no).
"""
for pid, f in focus.items():
    if only and pid not in only:
        continue
    p = props[pid]
    wt = f"/tmp/wt/{rnd}_{pid}"
    if not Path(wt).exists():
        subprocess.run(["git", "-C", "/repo", "worktree", "add", "-q", "--detach", wt, "HEAD"], check=True)
    q = p.get("quantifier") or {}
    quant = ("Must hold " + q["text"] + ".") if isinstance(q, dict) and q.get("text") else (str(q) if q else "")
    Path(wt, "TASK.md").write_text(TEMPLATE.format(pid=pid, wt=wt, title=p.get("title", ""), statement=p.get("statement") or p.get("description", ""),
                                                   quant=quant, focus=f))
    print("created", wt)
