"""Run every registered check (quick tier) in parallel and summarise. Not part of the manifest."""
import json, subprocess, sys, time
from concurrent.futures import ThreadPoolExecutor
m = json.load(open('/verif/MANIFEST.json'))
tier = 'thorough_cmd' if '--thorough' in sys.argv else 'quick_cmd'
def run(c):
    t = time.time()
    r = subprocess.run(c[tier], shell=True, cwd='/verif', capture_output=True, text=True)
    return c['property_id'], r.returncode, time.time() - t, r.stdout + r.stderr
with ThreadPoolExecutor(16) as ex:
    res = list(ex.map(run, m['checks']))
bad = 0
for pid, rc, dt, out in res:
    flag = 'ok ' if rc == 0 and 'VIOLATION' not in out else 'BAD'
    bad += flag == 'BAD'
    kf = out.count('KNOWN-FINDING')
    print(f"{flag} {pid} rc={rc} {dt:5.1f}s known={kf} " + (out.strip().splitlines()[0][:110] if out.strip() else ''))
    if flag == 'BAD':
        print(out[-1500:])
sys.exit(1 if bad else 0)
