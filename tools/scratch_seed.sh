#!/bin/bash
# usage: tools/scratch_seed.sh <seed name|base> [check nums...]
#   runs the checks against a scratch copy of /repo HEAD + the seeded patch (VERIF_REPO; /repo itself is not touched), 10 checks in parallel
NAME=$1; shift
D=/tmp/scr/$NAME
rm -rf $D; mkdir -p $D
git -C /repo archive HEAD src | tar -x -C $D
if [ "$NAME" != base ]; then (cd $D && patch -p1 -s < /verif/seeded/$NAME/patch.diff) || exit 9; fi
mkdir -p /tmp/scr/ev_$NAME /tmp/scr/rp_$NAME /tmp/scr/out_$NAME
cd /verif
CH=${@:-01 02 03 04 05 06 07 08 09 10 11 12 13 14 15 16 17 18 19 20}
export NAME D
echo $CH | tr ' ' '\n' | xargs -P 10 -I{} bash -c 'VERIF_REPO=$D VERIF_EVIDENCE_DIR=/tmp/scr/ev_$NAME VERIF_REPLAY_DIR=/tmp/scr/rp_$NAME /venv/bin/python -m checks.c{} > /tmp/scr/out_$NAME/{}.out 2>&1; echo $? > /tmp/scr/out_$NAME/{}.rc'
for n in $CH; do
  rc=$(cat /tmp/scr/out_$NAME/$n.rc)
  if [ "$rc" != 0 ]; then echo "C$n rc=$rc"; grep -A1 -E "VIOLATION|ANALYSIS-ERROR" /tmp/scr/out_$NAME/$n.out | cut -c1-600; fi
done
echo "[done $NAME]"
