#!/bin/bash
# usage: tools/scratch_seed.sh <seed name> [check nums...]   -- run checks against a scratch copy of HEAD + seeded patch (does not touch /repo)
NAME=$1; shift
D=/tmp/scr/$NAME
rm -rf $D; mkdir -p $D
git -C /repo archive HEAD src | tar -x -C $D
if [ "$NAME" != base ]; then (cd $D && patch -p1 -s < /verif/seeded/$NAME/patch.diff) || exit 9; fi
mkdir -p /tmp/scr/ev_$NAME /tmp/scr/rp_$NAME
cd /verif
CH=${@:-01 02 03 04 05 06 07 08 09 10 11 12 13 14 15 16 17 18 19 20}
for n in $CH; do
  out=$(VERIF_REPO=$D VERIF_EVIDENCE_DIR=/tmp/scr/ev_$NAME VERIF_REPLAY_DIR=/tmp/scr/rp_$NAME /venv/bin/python -m checks.c$n 2>&1); rc=$?
  if [ $rc -ne 0 ]; then echo "C$n rc=$rc"; echo "$out" | grep -A1 -E "VIOLATION|ANALYSIS-ERROR" | cut -c1-600; fi
done
echo "[done $NAME]"
