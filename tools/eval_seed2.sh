#!/bin/bash
# usage: tools/eval_seed2.sh <worktree> <name>
#   like eval_seed.sh (confirm suite/demo in the worktree, store under seeded/<name>) but runs the checks on a scratch copy, not on /repo
WT=$1; NAME=$2
cd $WT || exit 9
demo=$(ls demo_*.py 2>/dev/null | head -1)
[ -z "$demo" ] && { echo "$NAME: no demo"; exit 1; }
git diff -- src > /tmp/seed_patch_$NAME.diff
[ -s /tmp/seed_patch_$NAME.diff ] || { echo "$NAME: empty patch"; exit 1; }
suite=$(PYTHONPATH=$WT/src /venv/bin/python -m pytest -q -p no:cacheprovider -n 8 --timeout=900 2>&1 | tail -1)
(cd /tmp && PYTHONPATH=$WT/src timeout 300 /venv/bin/python $WT/$demo >/dev/null 2>&1); with_rc=$?
git apply -R /tmp/seed_patch_$NAME.diff
(cd /tmp && PYTHONPATH=$WT/src timeout 300 /venv/bin/python $WT/$demo >/dev/null 2>&1); without_rc=$?
git apply /tmp/seed_patch_$NAME.diff
echo "$NAME suite: $suite | demo with change rc=$with_rc | demo on original rc=$without_rc"
if echo "$suite" | grep -q "1080 passed" && [ $with_rc -ne 0 ] && [ $without_rc -eq 0 ]; then
  mkdir -p /verif/seeded/$NAME
  cp /tmp/seed_patch_$NAME.diff /verif/seeded/$NAME/patch.diff
  cp $WT/$demo /verif/seeded/$NAME/
  cp $WT/meta.json /verif/seeded/$NAME/agent_meta.json 2>/dev/null
  echo "$NAME CONFIRMED"
  /verif/tools/scratch_seed.sh $NAME
else
  echo "$NAME NOT-CONFIRMED"
fi
