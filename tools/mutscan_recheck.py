"""Re-runs the CURRENT checks on the survivors of a mutation scan that no check had reported (no test-suite run: they are known to survive it).
usage: python3 tools/mutscan_recheck.py notes/mutscan_all_results.jsonl /tmp/mutrecheck [jobs]"""
import json, os, shutil, subprocess, sys
from concurrent.futures import ThreadPoolExecutor
from pathlib import Path

src, out = sys.argv[1], Path(sys.argv[2])
jobs = int(sys.argv[3]) if len(sys.argv) > 3 else 4
PKG = "src/aws_durable_execution_sdk_python"
out.mkdir(parents=True, exist_ok=True)
base = out / "base"
if base.exists():
    shutil.rmtree(base)
base.mkdir()
subprocess.run(f"git -C /repo archive HEAD src | tar -x -C {base}", shell=True, check=True)
recs = [json.loads(l) for l in open(src)]
todo = [r for r in recs if r["survived"] and not any(x["rc"] == "1" for x in r["fired"])]
print(len(todo), "unreported survivors", flush=True)
res = []


def work(i_r):
    i, r = i_r
    w = out / f"w{i}"
    shutil.copytree(base, w)
    try:
        p = w / PKG / r["file"]
        t = p.read_text()
        p.write_text(t[: r["a"]] + r["repl"] + t[r["b"]:])
        od = w / "co"
        od.mkdir()
        cmd = ("echo 01 02 03 04 05 06 07 08 09 10 11 12 13 14 15 16 17 18 19 20 | tr ' ' '\\n' | xargs -P 5 -I{} bash -c "
               f"'VERIF_REPO={w} VERIF_EVIDENCE_DIR={w}/ev VERIF_REPLAY_DIR={w}/rp /venv/bin/python -m checks.c{{}} > {od}/{{}}.out 2>&1; echo $? > {od}/{{}}.rc'")
        subprocess.run(cmd, shell=True, cwd="/verif", capture_output=True, timeout=900)
        fired = []
        for n in range(1, 21):
            rc = (od / f"{n:02d}.rc").read_text().strip() if (od / f"{n:02d}.rc").exists() else "?"
            if rc != "0":
                rule = next((ln.strip()[:140] for ln in (od / f"{n:02d}.out").read_text().splitlines() if ln.startswith("  rule ") or ln.startswith("ANALYSIS-ERROR")), "")
                fired.append({"check": f"C{n:02d}", "rc": rc, "rule": rule})
        r2 = dict(r)
        r2["fired_now"] = fired
        res.append(r2)
        print(f"[{i}] {r['file']}:{r['line']} {r['kind']} -> {','.join(x['check'] + ('(2)' if x['rc'] == '2' else '') for x in fired) or '-'}", flush=True)
    finally:
        shutil.rmtree(w, ignore_errors=True)


with ThreadPoolExecutor(max_workers=jobs) as ex:
    list(ex.map(work, enumerate(todo)))
(out / "recheck.jsonl").write_text("\n".join(json.dumps(r) for r in res) + "\n")
now = [r for r in res if any(x["rc"] == "1" for x in r["fired_now"])]
print(f"{len(todo)} previously unreported survivors: {len(now)} are reported by the current checks")
shutil.rmtree(base, ignore_errors=True)
