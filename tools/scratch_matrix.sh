#!/bin/bash
# which checks fire on which seed, on scratch copies (fast, /repo untouched). tools/seed_matrix.sh does the same by applying to /repo.
cd /verif
for d in base $(ls seeded); do
  out=$(tools/scratch_seed.sh $d 2>&1)
  fired=$(echo "$out" | grep -o "^C[0-9][0-9] rc=[0-9]" | tr '\n' ' ')
  echo "$d -> $fired"
done
