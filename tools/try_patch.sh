#!/bin/bash
# usage: tools/try_patch.sh <patch.diff> [check ids...]   -- applies a patch to /repo, runs checks, reverts
set -u
P="$1"; shift
cd /repo || exit 9
if ! git diff --quiet; then echo "/repo is dirty"; exit 9; fi
git apply "$P" || { echo "patch does not apply"; exit 8; }
cd /verif
export VERIF_EVIDENCE_DIR=/tmp/verif-try/ev VERIF_REPLAY_DIR=/tmp/verif-try/replay
mkdir -p /tmp/verif-try
if [ $# -eq 0 ]; then set -- 01 02 03 04 05 06 07 08 09 10 11 12 13 14 15 16 17 18 19 20; fi
for c in "$@"; do
  out=$(/venv/bin/python -m checks.c$c 2>&1); rc=$?
  if [ $rc -ne 0 ] || echo "$out" | grep -q VIOLATION; then echo "C$c rc=$rc"; echo "$out" | grep -A1 "VIOLATION\|ANALYSIS-ERROR" | cut -c1-400 | head -8; fi
done
git -C /repo checkout -- . 
rm -rf /tmp/verif-try
echo "[reverted]"
