#!/bin/bash
cd /verif
for d in seeded/*/; do
  id=$(basename $d)
  out=$(tools/try_patch.sh /verif/${d}patch.diff 2>&1)
  fired=$(echo "$out" | grep -o "^C[0-9][0-9] rc=[0-9]" | tr '\n' ' ')
  echo "$id -> $fired"
done
