#!/bin/bash
# like tools/scratch_matrix.sh, four seeds at a time (scratch copies are per seed); result lines "<seed> -> <checks that fired>" in /tmp/scr/matrix.txt
cd /verif
mkdir -p /tmp/scr/matrix
(echo base; ls seeded) | xargs -P 4 -I{} bash -c 'tools/scratch_seed.sh {} > /tmp/scr/matrix/{}.txt 2>&1'
for d in base $(ls seeded); do
  fired=$(grep -o "^C[0-9][0-9] rc=[0-9]" /tmp/scr/matrix/$d.txt | tr '\n' ' ')
  echo "$d -> $fired"
done > /tmp/scr/matrix.txt
echo finished >> /tmp/scr/matrix.txt
