#!/bin/bash
# usage: tools/verify_seed.sh <ID>  -- confirms a sub-agent's mutant in its worktree /tmp/wt/<ID> and stores it under /verif/seeded/<ID>
ID=$1; WT=/tmp/wt/$ID
cd $WT || exit 9
demo=$(ls demo_*.py | head -1)
suite=$(PYTHONPATH=$WT/src /venv/bin/python -m pytest -q -p no:cacheprovider -n 8 --timeout=900 2>&1 | tail -1)
(cd /tmp && PYTHONPATH=$WT/src timeout 300 /venv/bin/python $WT/$demo >/tmp/seed_with.txt 2>&1); with_rc=$?
# (never `git stash`: the stash is shared by all worktrees of the repository)
git diff -- src > /tmp/seed_patch.diff
git apply -R /tmp/seed_patch.diff
(cd /tmp && PYTHONPATH=$WT/src timeout 300 /venv/bin/python $WT/$demo >/tmp/seed_without.txt 2>&1); without_rc=$?
git apply /tmp/seed_patch.diff
echo "$ID suite: $suite | demo with change rc=$with_rc | demo on original rc=$without_rc | base $(git rev-parse --short HEAD)"
if echo "$suite" | grep -q "1080 passed" && [ $with_rc -ne 0 ] && [ $without_rc -eq 0 ]; then
  mkdir -p /verif/seeded/$ID
  cp /tmp/seed_patch.diff /verif/seeded/$ID/patch.diff
  cp $WT/$demo /verif/seeded/$ID/
  cp $WT/meta.json /verif/seeded/$ID/agent_meta.json 2>/dev/null
  echo CONFIRMED
else
  echo NOT-CONFIRMED
fi
