"""Creates scratch worktrees /tmp/wt/<round>_<id> of /repo HEAD with a TASK.md asking an independent agent to look for a GENUINE violation of a
property in the code as it is (no change to the source). The task text contains only the property statement - nothing from /verif.
usage: python3 tools/mk_hunt.py <round-name> [ids...]"""
import json, subprocess, sys
from pathlib import Path

rnd = sys.argv[1]
only = set(a for a in sys.argv[2:] if not a.startswith("--"))
known_file = next((a.split("=", 1)[1] for a in sys.argv[2:] if a.startswith("--known=")), None)
KNOWN = json.loads(Path(known_file).read_text()) if known_file else {}
props = {json.loads(l)["id"]: json.loads(l) for l in Path("/verif/properties.jsonl").read_text().splitlines() if l.strip()}
TEMPLATE = """# Task for this scratch worktree ({pid}) - look for a genuine defect

You are working on a scratch git worktree of the Python project aws-durable-execution-sdk-python (an SDK for AWS Lambda durable
functions: a checkpoint-and-replay workflow engine with steps, waits, callbacks, invokes, map/parallel, child contexts and a
background checkpoint batcher thread). Your worktree is {wt}. Work ONLY inside {wt}. Never read, list or modify /repo or /verif.
Do NOT modify anything under {wt}/src or {wt}/tests: the code is to be examined as it is.

## Running things
* Test-suite: `cd {wt} && PYTHONPATH={wt}/src /venv/bin/python -m pytest -q -p no:cacheprovider -n 8 --timeout=900`   (1080 tests, ~15 s, all pass)
* Any script you write must be run with `PYTHONPATH={wt}/src`, and NOT with `src/aws_durable_execution_sdk_python` as current
  directory (it contains threading.py and types.py which would shadow the standard library).
* NEVER use `git stash`.

## The property (is supposed to hold for the SDK)
{pid}: {title}

{statement}

{quant}

{known}## What to do
Read the code that implements this property and try hard to find an input, configuration, history handed to a re-invocation, crash point or
thread interleaving for which the CURRENT, UNMODIFIED code violates the property. Think about every clause of the statement separately, about
unusual but legal inputs and configurations (zero / empty / None values, defaults, boundary sizes), about realistic multi-invocation
workflows (suspend, backend delivers, re-invoke with the recorded history - possibly paginated), about nesting (child contexts, map / parallel
inside each other, wait_for_callback, wait_for_condition inside branches), and about what happens around failures.
Drive the real code: build ExecutionState / DurableContext objects directly with a fake service client, or drive the `durable_execution`
wrapper with a `DurableExecutionInvocationInputWithClient` and an in-memory fake backend that records checkpoints and plays them back as
history (look at tests/ for how to construct such objects). Force interleavings with threading.Event or by wrapping methods; use timeouts so
that a hang is detected.

A finding only counts if it is a violation of the property AS STATED (not a style issue, not a performance remark, not something the
statement explicitly permits), it is reproducible, and the triggering program / input is legal use of the public API.

## What to deliver (in {wt})
 - for every genuine violation you can demonstrate (at most 3, the most convincing ones): `finding_<n>.py`, a standalone script that exits
   non-zero (assertion failure with a clear message) on the current code because of the violation, plus a paragraph in `report.md` saying which
   clause is violated, by which code (file:function), what it needs to manifest, and what a minimal repair would be;
 - `report.md` also lists what you examined and found to be in order (clause by clause), so that "nothing found" is informative;
 - do not invent findings: if you cannot reproduce something, describe it under "suspicions" in report.md and say so.

Finish by replying with a short summary: the findings (one line each: clause, code site, trigger) or "no genuine violation found", and the
list of scenarios you ran.
"""
for pid, p in props.items():
    if only and pid not in only:
        continue
    wt = f"/tmp/wt/{rnd}_{pid}"
    if not Path(wt).exists():
        subprocess.run(["git", "-C", "/repo", "worktree", "add", "-q", "--detach", wt, "HEAD"], check=True)
    q = p.get("quantifier") or {}
    quant = ("Must hold " + q["text"] + ".") if isinstance(q, dict) and q.get("text") else ""
    kn = KNOWN.get(pid) or KNOWN.get("*")
    known = ("## Already known (do not report these again - look for something else)\n" + "\n".join(f"- {k}" for k in ((KNOWN.get("*") or []) + (KNOWN.get(pid) or []))) + "\n\n") if kn else ""
    Path(wt, "TASK.md").write_text(TEMPLATE.format(pid=pid, wt=wt, title=p.get("title", ""), statement=p.get("statement", ""), quant=quant, known=known))
    print("created", wt)
