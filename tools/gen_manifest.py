"""Regenerates /verif/MANIFEST.json from the table below (keeps it valid at all times)."""
import json
from pathlib import Path

VERIF = Path(__file__).resolve().parent.parent
PY = "/venv/bin/python"

# property -> (design section, technique, level text, level note)
CHECKS = {}


def reg(pid, design_ref, technique, text, note):
    CHECKS[pid] = (design_ref, technique, text, note)


exec((VERIF / "tools" / "checks_table.py").read_text())

props = [json.loads(l) for l in (VERIF / "properties.jsonl").read_text().splitlines() if l.strip()]
NA = json.loads((VERIF / "tools" / "not_applicable.json").read_text())

checks = []
for p in props:
    pid = p["id"]
    if pid not in CHECKS:
        continue
    ref, tech, text, note = CHECKS[pid]
    mod = f"checks.{pid.lower()}"
    checks.append({
        "property_id": pid,
        "quick_cmd": f"{PY} -m {mod}",
        "thorough_cmd": f"{PY} -m {mod} --thorough",
        "evidence_file": f"/verif/evidence/{pid}.json",
        "replay_cmd_template": f"{PY} -m {mod} --explain {{path}}",
        "engine": "sa",
        "level_claimed": {"category": "other", "text": text, "design_ref": ref},
        "level_note": note,
        "technique": tech,
    })
manifest = {
    "version": 1,
    "setup_cmd": f"cd /verif && {PY} -c \"import ast, sys; sys.path.insert(0, '/verif'); from sa.model import load_program; print('modules', len(load_program().modules))\"",
    "hooks": {
        "guard": "AWS_DURABLE_EXECUTION_SDK_PYTHON_VERIF",
        "enable": "not used: every check is a static analysis over the ast of /repo/src and never imports or runs the SDK; there are no hook commits",
        "baseline_off_cmd": "cd /repo && /venv/bin/python -m pytest -ra -q -p no:cacheprovider --timeout=900 --continue-on-collection-errors",
        "source_commits": [],
        "add_only": True,
    },
    "engines": [{
        "name": "sa",
        "path": "/verif/sa",
        "serves_properties": sorted(CHECKS),
        "kind_free_text": "static analysis (stdlib ast only): program model + class lattice, statement CFG with dominators, "
                          "abstract interpreter enumerating event traces of loop-free protocol code over a finite status domain, "
                          "codec/handler table extractors",
    }],
    "checks": checks,
    "notes": "Static analysis only (DESIGN.md). Exit 0 = every structural obligation discharged (known findings printed as KNOWN-FINDING); "
             "exit 1 = VIOLATION lines; exit 2 = ANALYSIS-ERROR (anchor vanished / unsupported construct), never a silent pass.",
    "not_applicable": [{"property_id": p["id"], "reason": NA.get(p["id"], "check not built yet (work in progress)")}
                       for p in props if p["id"] not in CHECKS],
}
(VERIF / "MANIFEST.json").write_text(json.dumps(manifest, indent=1))
print("checks:", len(checks), "not_applicable:", len(manifest["not_applicable"]))
