reg("C01", "DESIGN.md#2", "abstract interpretation of executor status cells + who-may-write + dominance",
    "Decides the structural necessary conditions: in every terminal status cell of every executor no user code, strategy or "
    "checkpoint is reachable and the delivered value/error has recorded provenance; the operation map has exactly two writers; "
    "the history load dominates the first user code; every context operation reaches process() with the id it drew. "
    "Exhaustive over the enumerated cells and paths of the loop-free executor code.",
    "Does not decide which status cell a real history/crash/schedule produces, nor value equality; trusts the applicability table "
    "(which statuses the service can hold per operation type) and the interpreter's seed tables for user callables.")
