reg("C01", "DESIGN.md#2", "abstract interpretation of executor status cells + who-may-write + dominance",
    "Decides the structural necessary conditions: in every terminal status cell of every executor no user code, strategy or "
    "checkpoint is reachable and the delivered value/error has recorded provenance; the operation map has exactly two writers; "
    "the history load dominates the first user code; every context operation reaches process() with the id it drew. "
    "Exhaustive over the enumerated cells and paths of the loop-free executor code.",
    "Does not decide which status cell a real history/crash/schedule produces, nor value equality; trusts the applicability table "
    "(which statuses the service can hold per operation type) and the interpreter's seed tables for user callables.")
reg("C02", "DESIGN.md#3", "abstract interpretation: first-failure vs replay exception classes, serdes symmetry, provenance",
    "Decides exception-class agreement between the trace that first records a failure and the FAILED-cell trace, serializer-expression "
    "symmetry between record and replay, that every SUCCEED payload is the serialisation of the returned value, status-independence of "
    "create_callback, and error-field provenance. Exhaustive over the enumerated cells.",
    "Does not decide value equality after a round trip (runtime quantity); assumes deterministic user code; classes the wrapper re-raises are exempt.")
reg("C03", "DESIGN.md#4", "abstract interpretation with checkpoint-fault injection + CFG dominance on the consumer loop",
    "Decides, on every path of every non-terminal executor cell with a failure injected at every checkpoint, that an accepted synchronous "
    "record precedes return / final raise / suspend; that create_checkpoint waits on the very event it enqueued; that in the consumer the API "
    "call and the merge of its response dominate every success release; FIFO queue construction; wrapper large-result ordering.",
    "Thread interleavings are not explored: the halves are composed by an assume/guarantee argument over stdlib Queue/Event semantics.")
reg("C04", "DESIGN.md#5", "abstract interpretation of the step executor per status cell and step semantics",
    "Decides for the at-most-once mode that every path reaching the step function carries an accepted synchronous START issued earlier in the "
    "same call, that a STARTED attempt is routed to the retry strategy as interrupted, and that a START not confirmed as STARTED aborts.",
    "Assumes the backend's attempt counter / READY->STARTED transitions; crash points themselves are not enumerated (the rule is per path).")
