reg("C01", "DESIGN.md#2", "abstract interpretation of executor status cells + who-may-write + dominance",
    "Decides the structural necessary conditions: in every terminal status cell of every executor no user code, strategy or "
    "checkpoint is reachable and the delivered value/error has recorded provenance; the operation map has exactly two writers; "
    "the history load dominates the first user code; every context operation reaches process() with the id it drew. "
    "Exhaustive over the enumerated cells and paths of the loop-free executor code.",
    "Does not decide which status cell a real history/crash/schedule produces, nor value equality; trusts the applicability table "
    "(which statuses the service can hold per operation type) and the interpreter's seed tables for user callables.")
reg("C02", "DESIGN.md#3", "abstract interpretation: first-failure vs replay exception classes, serdes symmetry, provenance",
    "Decides exception-class agreement between the trace that first records a failure and the FAILED-cell trace, serializer-expression "
    "symmetry between record and replay, that every SUCCEED payload is the serialisation of the returned value, status-independence of "
    "create_callback, and error-field provenance. Exhaustive over the enumerated cells.",
    "Does not decide value equality after a round trip (runtime quantity); assumes deterministic user code; classes the wrapper re-raises are exempt.")
reg("C03", "DESIGN.md#4", "abstract interpretation with checkpoint-fault injection + CFG dominance on the consumer loop",
    "Decides, on every path of every non-terminal executor cell with a failure injected at every checkpoint, that an accepted synchronous "
    "record precedes return / final raise / suspend; that create_checkpoint waits on the very event it enqueued; that in the consumer the API "
    "call and the merge of its response dominate every success release; FIFO queue construction; wrapper large-result ordering.",
    "Thread interleavings are not explored: the halves are composed by an assume/guarantee argument over stdlib Queue/Event semantics.")
reg("C04", "DESIGN.md#5", "abstract interpretation of the step executor per status cell and step semantics",
    "Decides for the at-most-once mode that every path reaching the step function carries an accepted synchronous START issued earlier in the "
    "same call, that a STARTED attempt is routed to the retry strategy as interrupted, and that a START not confirmed as STARTED aborts.",
    "Assumes the backend's attempt counter / READY->STARTED transitions; crash points themselves are not enumerated (the rule is per path).")
reg("C11", "DESIGN.md#12", "abstract interpretation: per-cell update sequences run through a lifecycle automaton",
    "Decides that in every applicable (executor, status) cell, on every path with faults injected, the sequence of updates handed over is accepted by "
    "the lifecycle automaton of the statement; kind purity and identifier threading of every update; context START precedes its body; the execution "
    "record is unique, last and built only by the wrapper; OperationUpdate is only built by its factories.",
    "Validity of the concatenation across invocations depends on the cell the next invocation starts in (not decided); FIFO delivery is C03/C05.")
reg("C12", "DESIGN.md#13", "abstract interpretation of step executor + symbolic interpretation of the packaged strategy closures",
    "Decides the attempt expression handed to the strategy (recorded attempt + 1), decision=>effect (sync RETRY with delay lower bound 1 then timed suspend; "
    "sync FAIL then raise), PENDING only suspends, and for the packaged retry/wait strategies that the max-attempts cut-off guards every retry, "
    "the delay has lower bound 1 and the pre-jitter delay is capped.",
    "Numeric backoff/jitter values and execution counts across invocations are runtime quantities.")
reg("C13", "DESIGN.md#14", "abstract interpretation of the wait_for_condition executor with def-use of the polled state",
    "Decides that the check function receives the deserialised recorded payload (or the initial state when the path established none is recorded), that the "
    "value it returned is what is serialised into RETRY/SUCCEED and returned, attempt+1 threading, and decision=>effect with delay lower bound 1.",
    "Equality of the restored state after a serializer round trip and poll counts across invocations are runtime quantities.")
reg("C14", "DESIGN.md#15", "exhaustive status tables by abstract interpretation (callback executor, Callback.result, invoke executor)",
    "Decides for all 9 status cells the outcome of create_callback, Callback.result() and invoke (START once, synchronous, carrying serialised payload and target; "
    "suspend / return deserialised / raise recorded error), and the create->submit->result composition of wait_for_callback.",
    "Backend id stability, payload fidelity and external completion order are runtime facts.")
reg("C16", "DESIGN.md#17", "abstract interpretation (child executor large branch, replay mapping, handler dispatch, wrapper) + field-flow of summary generators",
    "Decides that the oversize branch records summary/'' with ReplayChildren and never the payload, the replay-children cell re-runs the body without records, "
    "handlers dispatch to replay() iff SUCCEEDED and replay() maps each recorded child status to one item, BatchResult summary generators do not flow into "
    "branch contexts, and the wrapper records an oversized result/error synchronously before answering with an empty payload.",
    "Equality of the rebuilt value and byte-vs-character length are not decided.")
reg("C05", "DESIGN.md#6", "abstract interpretation of the batch collector and consumer loop over modelled queues + who-may-call",
    "Decides, on every path of the collector (queues as sources of fresh keyed items, loops unrolled), item linearity, acquisition order, no overtaking after "
    "parking, progress on an empty batch, the inductive 'at most one parked update' invariant, and count/size guards computed from the accepted item; on the "
    "consumer: token threading, updates = batch, release on success after merge and on failure with the error; queue/API ownership over the package.",
    "Producer/consumer interleavings, batching-window timing and real byte sizes are not explored; stdlib Queue is FIFO.")
reg("C06", "DESIGN.md#7", "abstract interpretation of consumer failure handler, producer, thread roots, wrapper + exception-class lattice rules",
    "Decides handler completeness (wake batch, drain both queues with the error, raise the flag, stop), the store->load handshake on both sides, BaseException-only "
    "discipline and absence of swallowing handlers, routing of every branch outcome (incl. BackgroundThreadError) to the completion event and re-raise by the "
    "waiter, the wrapper's outcome for a background failure (raise or FAILED, never SUCCEEDED/PENDING), and that a failed checkpoint ends the operation.",
    "Schedules are not explored (the handshake is an argued pairing); wall-clock promptness is not decided.")
reg("C07", "DESIGN.md#8", "abstract interpretation (suspending paths, suspend decision per BranchStatus, wrapper) + blocking-call inventory + CFG dominance",
    "Decides record-before-suspend on every suspending path, exhaustiveness/soundness of the concurrent suspend decision over BranchStatus, who may catch "
    "SuspendExecution and that the wrapper answers a bare PENDING, that every unbounded blocking call is registered with its wake-up rule, and "
    "reset-before-resubmit in the timer loop.",
    "Termination over invocations, spinning, and 'no user function still running' under every schedule are explicitly not decided.")
reg("C09", "DESIGN.md#10", "abstract interpretation of _create_result / execute(empty) + sibling cross-check of decision vs classifier atoms",
    "Decides exhaustive faithful item mapping per BranchStatus, input order, branches only through the bounded pool, agreement of threshold atoms and of the "
    "fail-fast guard between the stop decision and the completion-reason classifier, and termination on empty input.",
    "The return instant relative to running branches and real parallelism are runtime facts; known finding: fail-fast guard mismatch (pinned by tests).")
reg("C10", "DESIGN.md#11", "abstract interpretation of create_checkpoint (guard/lock/mark ordering) + information-flow necessary conditions + lock discipline",
    "Decides guard-before-enqueue under the lock, marking exactly on CONTEXT SUCCEED/FAIL from the completing context, transitive marking, lock discipline "
    "of the tree, inert orphan handler, first-time operations checkpoint before user code, and the two information-flow conditions (guard reads the parent "
    "link; tree fed from history) which today are known findings.",
    "Completion instants relative to branches are not explored.")
reg("C08", "DESIGN.md#9", "effect/purity rule + who-may-touch + abstract interpretation of context methods with bodies probed + attribute whitelist",
    "Decides purity of the id function and that both inputs reach the hash, counter discipline, exactly one id per operation call drawn before the executor "
    "and used for identifier and child-context parent, index-derived branch ids through the side-effect-free id function, whitelist use of the branch-owning "
    "context, and id/parent copying by all 14 factories.",
    "Assumes blake2b collision-freedom and that user code does not use one context from several threads.")
reg("C17", "DESIGN.md#18", "abstract interpretation of Logger methods and of every context operation's exits + def-use of the replay decision",
    "Decides that the underlying logger is reached only behind the replay gate with merged identifiers, derived loggers keep state and identifiers, every "
    "operation is marked visited on the normal exit and on every exit with a catchable exception, and the initial replay decision depends on pagination data.",
    "Emission counts for a concrete program/history are runtime; the contract about completed children of a completed context is not judged.")
reg("C18", "DESIGN.md#19", "abstract interpretation of the handler wrapper over the whole exception lattice (handler table)",
    "Decides the outcome of the wrapper for 'handler returns' and for each of the 23+ exception classes (incl. abstract Exception/BaseException), liveness of "
    "each handler, well-formedness of every returned dictionary per status, retriable<->raise, stop-before-join on every exit, stop-flag observation by the "
    "consumer loops, and ExecutionError for malformed payloads.",
    "Concrete botocore classification is value-level; thread liveness at run time is not decided.")
reg("C15", "DESIGN.md#16", "abstract interpretation of the codec dispatcher on one typed representative per supported type (tag/type table agreement)",
    "Decides the structural part only: the tag emitted for each supported type is decoded back into the same type (incl. bool/int and datetime/date ordering), "
    "tag coverage and rejection of unknown tags, per-element wrapping, the envelope-free fast path's domain on both sides, rejection of non-string dict keys, "
    "and conversion of serdes failures to ExecutionError.",
    "Round-trip equality of values is NOT decided (runtime quantity); stdlib inverses (json, base64, uuid, Decimal, isoformat) are trusted.")
reg("C19", "DESIGN.md#20", "abstract interpretation of OrderedLock/OrderedCounter methods with keyed external queue/lock/event objects",
    "Decides the monitor-discipline necessary conditions: lock discipline of shared fields, enqueue-before-wait on the same event, self-wake iff the queue was "
    "empty, append/popleft/index-0 FIFO discipline, wake-head on release, break-and-wake-all on exceptional exit, re-test of the broken flag, and the counter's "
    "read-modify-return inside one lock hold.",
    "FIFO/exclusion/gap-freedom under all interleavings are not decided.")
reg("C20", "DESIGN.md#21", "writer/reader table extraction from the AST of every to_dict/from_dict pair and set comparison",
    "Decides at the level of fields and keys that every field is written, written and read under the same key, enum and nested-model conversions are paired, "
    "an empty-dict wire value is not treated as absence, no walrus re-binding leaks raw values, and the JSON variants convert exactly the datetime paths.",
    "Value conversions inside a field are trusted; omission of empty optional strings is allowed by the statement.")

# rules added after the third round of independent mutants (DESIGN.md 28.5, round 3): appended to the level text of the check
_R3 = {
    "C01": " Also an ownership rule: the result of create_child_context never escapes the activation that created it (a body that is run again draws the same ids).",
    "C02": " Also sibling agreement: every BatchResult the concurrent executor builds (first run and replay) is classified with the caller's completion policy.",
    "C07": " Also: every branch-end path of the done-callback releases the waiter or re-evaluates both the completion policy and the all-finished-or-parked "
           "predicate; zero-argument join()/get() are blocking calls whatever their receiver is called.",
    "C08": " The id function is judged by value flow (abstract text and hash objects; the context is built by its own __init__) and by purity "
           "(no stores, no attribute that is assigned outside __init__); a context created for a body never escapes into longer-lived state.",
    "C09": " replay() is interpreted on two inputs for every recorded child status: one item per input, in input order.",
    "C10": " The guard predicate is interpreted on small link chains (links known from updates / only from history, completed ancestor at every level, in "
           "each verdict set), and a remembered negative verdict must be emptied completely wherever a positive-verdict set grows.",
    "C13": " A poll that makes the call raise (not a suspension, not a checkpoint failure) has an accepted synchronous FAIL record.",
    "C15": " BatchItem/BatchResult to_dict/from_dict are interpreted on symbolic items: the item value comes back on every path, items in order.",
    "C16": " Units: a json.dumps whose len() is compared with the response byte limit keeps ensure_ascii or is measured encoded.",
    "C17": " The status test of the replay boundary is evaluated for every OperationStatus member and must equal the backend's terminal set.",
    "C18": " No unbounded wait precedes the stop signal of the checkpoint thread once the handler is done.",
    "C19": " The broken flag is cleared only on paths that established an empty waiter queue.",
    "C20": " The two scalar timestamp conversions are judged against a table of offset-dropping / naive datetime APIs.",
}
for _pid, _extra in _R3.items():
    _ref, _tech, _text, _note = CHECKS[_pid]
    CHECKS[_pid] = (_ref, _tech, _text + _extra, _note)

# round 4
_R4 = {
    "C02": " The error codec writes every field that is set (guard `is not None`) and reads it back under the same key.",
    "C03": " A synchronous producer's normal return must rest on its own event having been set (released wait or a read that saw it set); events are modelled "
           "with a fresh decision per read (monotone once set) and bounded waits may time out.",
    "C09": " Optional numeric thresholds of the completion policy are compared, never tested by truthiness.",
    "C14": " The callback START record carries the configured timeout and heartbeat timeout unchanged; the invoke START carries the configured tenant.",
}
for _pid, _extra in _R4.items():
    _ref, _tech, _text, _note = CHECKS[_pid]
    CHECKS[_pid] = (_ref, _tech, _text + _extra, _note)

# round 5
_R5 = {
    "C02": " A summarised context is rebuilt, not delivered from its record; a recorded success delivers None without deserialising only on a path that "
           "established the payload's absence.",
    "C05": " The measure compared with the size limit is the length of the JSON text of the update's complete wire dictionary.",
    "C06": " Every service-reaching call of the consumer loop lies inside the try whose handler raises the failure flag.",
    "C09": " replay() is also interpreted on all 16 pairs of recorded child statuses: every item carries exactly its own value / error.",
    "C12": " Plain-string error filters are matched literally (no non-literal reaches the regex engine without re.escape).",
    "C14": " Callback.result() returns None only on a path that established that no payload was delivered.",
    "C17": " track_replay is interpreted on small histories (completed / failed / nested contexts, open contexts, pending retries, later completed steps): the "
           "logger is un-muted exactly when every completed operation a replay can still reach has been passed; the context's own logger carries the "
           "enclosing operation's id wherever it is built.",
    "C20": " No reader stores into any level of the dictionary it was given (alias-depth analysis).",
}
for _pid, _extra in _R5.items():
    _ref, _tech, _text, _note = CHECKS[_pid]
    CHECKS[_pid] = (_ref, _tech, _text + _extra, _note)

# rules added after the review-agent round h1 (DESIGN.md 28.6)
_H1 = {
    "C01": " Every iteration over the operation map happens under its lock.",
    "C03": " The judge no longer assumes that user code lets SDK-level 'fatal' errors propagate: any final error after the body ran needs an accepted FAIL record "
           "(fatal errors under their own rule id; the step executor's case is a known finding).",
    "C05": " When the consumer leaves its loop because it was told to stop, it raises a flag the producers look at and releases everything still queued.",
    "C06": " SUCCEEDED / PENDING are only answered after the wrapper has looked at the checkpoint failure state, and only after the background loop was stopped "
           "and joined (or an accepted synchronous record) - a failed call that carried only fire-and-forget updates wakes nobody.",
    "C07": " Lock discipline: no supplied callback and no method taking the same lock is called while a threading.Lock is held; a suspension raised for an "
           "outstanding invoke / callback lies in the future or is indefinite; the suspend verdict must still hold when it is raised (known finding).",
    "C09": " A failed item carries the fields of the error its branch recorded; replay() must be bounded by the decision-time snapshot (known finding).",
    "C10": " An update is enqueued while the lock that covered its orphan guard is still held; a *resumed* operation asks the orphan state before its user code runs.",
    "C12": " The backoff power cannot overflow before the cap is applied.",
    "C13": " Absence of a recorded state must be established by `is None` (a truthiness test conflates '' with nothing); an empty payload must survive the wire "
           "(known finding); a failed restore may not restart the polling (known finding, pinned by a test).",
    "C15": " Dispatch arms that accept subclass instances and the JSON text round trip of adjacent surrogates are reported (known findings).",
    "C16": " What is compared with the response limit is the response, not the result text alone; every inline answer is size-checked (ExecutionError arm: known "
           "finding); the re-traversal of a summarised context is never preceded by an orphan query.",
    "C18": " The handler result must be strict JSON (NaN: known finding); BaseException-only user exceptions must become FAILED (known finding).",
    "C20": " Milliseconds are computed by integer arithmetic; the JSON reader tests presence, not truthiness; a field-less error object is not absence (known findings).",
}
for _pid, _extra in _H1.items():
    _ref, _tech, _text, _note = CHECKS[_pid]
    CHECKS[_pid] = (_ref, _tech, _text + _extra, _note)

# review round h2 (on the repaired tree)
_H2 = {
    "C02": " Class agreement is judged for EVERY class raised after a FAIL record, also those that end the invocation (step / child re-raising invocation errors: "
           "known findings); the event handed to the handler must be read from the state after the paginated history was loaded.",
    "C06": " The same look at the failure state (after stop + join) is required on every path on which the handler ended with an error of its own; a failure may "
           "not leave the wrapper as the BackgroundThreadError envelope.",
    "C07": " The suspend verdict must be able to see results that were delivered into the operation map while branches were parked (known finding).",
    "C08": " The identifier of every record - including the EXECUTION result records - is a function of constants and parameters (wall-clock ids: known findings).",
    "C09": " A branch state publishes its payload before its terminal status.",
    "C10": " The operation's retry / wait strategy counts as its user function; terminal cells that answer from the record without an orphan query are reported "
           "(known finding).",
    "C12": " Where the overflow of the backoff power is caught, the substitute must follow the product (zero initial delay).",
    "C15": " Decoder recursion costs no more frames per level than encoder recursion; no coercion before encode (bytearray / memoryview: known finding); the zone of "
           "an aware datetime is kept or rejected (known finding).",
    "C16": " The checkpoint limit is compared with a byte count; executors without user code never ask the orphan state in a resumed cell.",
    "C18": " Conversion of foreign and user exceptions into error records is total (None-valued attributes, failing __str__).",
    "C20": " The decoder computes the datetime by integer arithmetic too.",
}
for _pid, _extra in _H2.items():
    _ref, _tech, _text, _note = CHECKS[_pid]
    CHECKS[_pid] = (_ref, _tech, _text + _extra, _note)

# round 6 of independent mutants / regression review g1
_R6 = {
    "C06": " The first handler that can take an error of a service call decides (an inner handler that swallows it is reported); the failure slot is written by "
           "the consumer thread only.",
    "C07": " A suspension may be kept only by the handler wrapper and by the branch done-callback (who-may-catch table).",
    "C09": " A branch's state is published before its outcome is counted.",
    "C12": " A constant attempt number needs evidence on the path that nothing is recorded; the backoff power carries the exponent (attempts_made - 1).",
    "C15": " Frames per nesting level are computed on the resolved call graph (cheapest encoder arm against dearest decoder arm).",
    "C18": " Every SDK function that is handed the user's exception guards its text.",
    "C19": " __exit__ is judged on two argument scenarios (normal, some BaseException), not by the shape of its test.",
    "C20": " Codec functions depend on their argument only (no module-level mutable state, no caches).",
}
for _pid, _extra in _R6.items():
    _ref, _tech, _text, _note = CHECKS[_pid]
    CHECKS[_pid] = (_ref, _tech, _text + _extra, _note)

# review round h3
_H3 = {
    "C02": " No operation may be issued on a context while a suspension unwinds through it (known finding).",
    "C03": " A raising retry / wait strategy is user code like any other: the operation's failure must still be recorded.",
    "C07": " A wait found STARTED parks until its recorded end time.",
    "C09": " A decided policy overrules a recorded suspension; branch outcomes on record are counted before branches are submitted (known finding).",
    "C10": " The entry query every operation asks is evaluated on small chains: it must stop an orphaned branch (one shape is a known finding).",
    "C14": " The serdes of a callback result is used for the callback result only (known finding).",
    "C15": " Leaf codecs decode no deeper than they encode.",
    "C16": " The entry query lets a re-traversal pass; the rebuild of a summarised map/parallel reaches the depth of the first delivery (known finding).",
    "C19": " No user code (formatting of the stored exception) under the internal mutex.",
    "C20": " Timestamps are comparable after the JSON codec (known finding: no normalisation where objects are built).",
}
for _pid, _extra in _H3.items():
    _ref, _tech, _text, _note = CHECKS[_pid]
    CHECKS[_pid] = (_ref, _tech, _text + _extra, _note)

# rounds g2 / r7 (DESIGN 28.10)
_R7 = {
    "C03": " The completion mailbox stores the error before it releases the waiter, and the waiter reads it after it was released.",
    "C06": " The completion mailbox stores the error before it releases the waiter (publication order inside CompletionEvent).",
    "C07": " An operation waiting for its own recorded timer never parks without a time; a replayed wait parks until the earlier of its recorded end and its full duration from now.",
    "C09": " Quantities derived on both sides of the policy (failure percentage) are derived from the same counters, the classifier's counters are bound to the statuses "
           "their names say, and a branch outcome is published, counted and decided on inside one critical section.",
    "C12": " Every failure of the step function reaches the retry strategy, except the one family let through on purpose (ExecutionError).",
    "C19": " The error handed to acquirers of a broken lock is built without unprotected user code (__str__ / __bool__ of the holder's exception).",
    "C20": " An emission guard in a writer looks at the emitted value (or an object it is reached through) and at nothing else.",
}
for _pid, _extra in _R7.items():
    _ref, _tech, _text, _note = CHECKS[_pid]
    CHECKS[_pid] = (_ref, _tech, _text + _extra, _note)

# rounds g3 / r8 and the probes behind the model's hooks (DESIGN 28.11, 28.12)
_R8 = {
    "C02": " What a replay answers with is read from the details object of the operation's own type (CheckpointedResult.create_from_operation, arm by arm).",
    "C03": " Every use of what a user strategy returned lies inside the guard that records the failure; after an update is enqueued create_checkpoint raises only "
           "invocation-ending (BaseException-only) errors; the completion mailbox waits as long as its caller says.",
    "C05": " The client passes the batch, the token and the marker through to the service API unchanged and decodes the whole response.",
    "C07": " Branch state transitions land where the done-callback and the resume timer assume (typestate table read off the transition methods and the verdict).",
    "C09": " The booking methods write their own counter under the lock; complete() / fail() land in the status their payload is read from; the order rules apply only "
           "where the order is observable.",
    "C10": " After a blocking checkpoint the orphan state is asked again before the user function; the read-only query asks what the guard in create_checkpoint asks.",
    "C11": " After the enqueue, create_checkpoint raises nothing an executor's `except Exception` could take for a failure of the operation's body.",
    "C12": " A step found READY runs the attempt; the pre-jitter delay of the packaged strategies has a finite lower bound.",
    "C15": " Encoder and decoder convert under the same interpreter settings.",
    "C17": " (The interpreter runs @contextmanager generators in place, so a visited-mark moved into one is judged like a try/finally.)",
    "C20": " Wire keys of reader-only and writer-only classes are compared with the API shapes of botocore's service model; every member of a response shape is read.",
}
for _pid, _extra in _R8.items():
    _ref, _tech, _text, _note = CHECKS[_pid]
    CHECKS[_pid] = (_ref, _tech, _text + _extra, _note)

# mutation scan (DESIGN 28.13)
_R9 = {
    "C05": " After a stop every queued item is released with the stop marker, the right way round, until the queues are empty.",
    "C06": " A producer that saw the failure flag raised neither enqueues nor goes to sleep; whoever wakes execute() from a handler has stored the error first; the timer drops an "
           "error only when execute() is on its way out; every place that opens the BackgroundThreadError envelope classifies its payload; a queue seen non-empty after a failed "
           "call is read; the wrapper's look at the failure state raises what it finds.",
    "C07": " The timer's heap layout agrees between writer and reader; a resubmission refreshes the state first; a running wait parks until its recorded end, not 'a second from now'.",
    "C09": " Without a configured tolerance the first failure decides (comparisons against zero included); the pool size is evaluated, not just read; divisions by a count are "
           "guarded; a decided call does not join the pool (shutdown(wait=False), no pool as context manager).",
    "C10": " A completing context is registered where the ancestor walk looks, and so is every parent link; a read-only query that never raises is a violation, not an undecided.",
    "C12": " The overflow fallback is evaluated on the sign table of the factors; the recorded retry delay is the decided one.",
    "C15": " A dictionary is an envelope only with BOTH token keys.",
    "C17": " The initial replay status is evaluated on the five smallest histories; completed contexts count as completed work.",
    "C18": " Every return site of the wrapper hands back a status dictionary (also the arms the trace model cannot reach).",
    "C20": " A key is withheld for absent values only (guard polarity); every timestamp conversion depends on its own presence only.",
}
for _pid, _extra in _R9.items():
    _ref, _tech, _text, _note = CHECKS[_pid]
    CHECKS[_pid] = (_ref, _tech, _text + _extra, _note)

# round 9 of independent mutants and mutation scan 4 (DESIGN 28.15)
_R10 = {
    "C04": " The mode the executor reads is the caller's: a configuration rebuilt from one of the same class passes every field, and the step executor is handed the "
           "caller's config (or the plain default for a missing one).",
    "C05": " The consumer model also produces refresh-only batches (a call without updates still moves the token on) and fire-and-forget items in the queues it drains; "
           "the client makes the wire call once per hand-over (no loop around it).",
    "C06": " The failure drain copes with queued items that have no completion event (an AttributeError half-way through leaves the rest asleep).",
    "C07": " The arm for a running wait is also evaluated by value on a grid of clock readings: the earlier of the recorded end and one duration from now, a moment from now once "
           "that has passed.",
    "C09": " The counters are built with the quantity of each parameter's own name (number of inputs, the three configured thresholds) and store them in the fields the decision reads.",
    "C13": " The recorded delay is the one the wait strategy decided; a constant only as the clamp of a decided delay below one second.",
    "C15": " A leaf encoder renders the value it was given: the parameter is not re-bound and no value-changing call (astimezone, replace, normalize, quantize, ...) is applied to it.",
    "C17": " When the status test of the completed set is not recognised the small-history scenarios still decide (in-flight operations must not keep the logger muted).",
    "C18": " The checkpoint-error classification is evaluated on 15 status codes x 6 error bodies against the documented contract (4xx other than 429, with an error body that is "
           "not the stale-token message, is the one category; everything else the other).",
    "C19": " __exit__ returns a constant false value on every path after a body that raised (the holder sees its own exception).",
    "C20": " What is stored under a key is the field or one of its lossless images (enum .value, to_dict(), a comprehension over the whole sequence): no slice, index or computation.",
}
for _pid, _extra in _R10.items():
    _ref, _tech, _text, _note = CHECKS[_pid]
    CHECKS[_pid] = (_ref, _tech, _text + _extra, _note)
