#!/bin/bash
# usage: tools/confirm_ported.sh <seed>  -- re-confirms a (ported) seed on a scratch copy of /repo HEAD: suite passes with it, its demo fails with it
NAME=$1; D=/tmp/scr/confirm_$NAME
rm -rf $D; mkdir -p $D
git -C /repo archive HEAD src tests pyproject.toml | tar -x -C $D
(cd $D && patch -p1 -s < /verif/seeded/$NAME/patch.diff) || { echo "$NAME: patch does not apply"; exit 9; }
suite=$(cd $D && PYTHONPATH=$D/src timeout 600 /venv/bin/python -m pytest -q -p no:cacheprovider -n 8 --timeout=60 --timeout-method=thread tests 2>&1 | tail -1)
demo=$(ls /verif/seeded/$NAME/demo_*.py | head -1)
(cd /tmp && PYTHONPATH=$D/src timeout 300 /venv/bin/python $demo >/dev/null 2>&1); rc=$?
(cd /tmp && PYTHONPATH=/repo/src timeout 300 /venv/bin/python $demo >/dev/null 2>&1); rc0=$?
echo "$NAME: suite: $suite | demo with change rc=$rc | demo on /repo HEAD rc=$rc0"
rm -rf $D
