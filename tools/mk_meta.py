"""Writes seeded/<round>_<pid>/meta.json for a round of independent mutants from the agent's own meta (agent_meta.json), the scratch matrix
(/tmp/scr/matrix/<seed>.txt: which checks fired and with which rule on HEAD + seed) and a small hand-written history table.
usage: python3 tools/mk_meta.py <round> <round-number> <base-commit> <history.json>"""
import json, re, sys
from pathlib import Path

rnd, num, base, hist_file = sys.argv[1], int(sys.argv[2]), sys.argv[3], sys.argv[4]
hist = json.loads(Path(hist_file).read_text())
for d in sorted(Path("/verif/seeded").glob(f"{rnd}_C*")):
    pid = d.name.split("_")[1]
    am = json.loads((d / "agent_meta.json").read_text()) if (d / "agent_meta.json").exists() else {}
    mt = Path(f"/tmp/scr/matrix/{d.name}.txt")
    fired = []
    if mt.exists():
        txt = mt.read_text()
        for m in re.finditer(r"^(C\d\d) rc=1\n(?:VIOLATION[^\n]*\n  rule (\S+))?", txt, re.M):
            fired.append(f"{m.group(1)}/{m.group(2)}" if m.group(2) else m.group(1))
    meta = {
        "property": pid, "round": num,
        "origin": f"sub-agent that saw only the property text, what earlier rounds had tried (tools/rounds/{rnd}_focus.json) and a scratch worktree of the repaired tree (no access to /verif)",
        "summary": am.get("summary", ""), "needs_to_manifest": am.get("needs_to_manifest", ""),
        "base_commit_of_repo": base,
        "confirmed_by_me": {"cmd": f"tools/eval_seed2.sh /tmp/wt/{d.name} {d.name}", "suite_with_change": "1080 passed", "demo_with_change": "exit 1", "demo_on_original": "exit 0"},
        "apply": f"git -C /repo apply /verif/seeded/{d.name}/patch.diff ; run checks ; git -C /repo checkout -- .",
        "detected_by": ", ".join(fired) or "NOT DETECTED",
        "history": hist.get(pid, "caught as built"),
    }
    (d / "meta.json").write_text(json.dumps(meta, indent=1))
    print(d.name, "->", meta["detected_by"])
