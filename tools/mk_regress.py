"""Creates scratch worktrees /tmp/wt/<round>_<name> of /repo HEAD with a TASK.md asking an independent agent to review specific repair commits for
regressions. The task text contains the commit ids (the worktree has the git history), the statements of the properties the repairs were made for,
and nothing from /verif.  usage: python3 tools/mk_regress.py <round> <groups.json>"""
import json, subprocess, sys
from pathlib import Path

rnd, groups = sys.argv[1], json.loads(Path(sys.argv[2]).read_text())
props = {json.loads(l)["id"]: json.loads(l) for l in Path("/verif/properties.jsonl").read_text().splitlines() if l.strip()}
TEMPLATE = """# Task for this scratch worktree ({name}) - review recent repairs for regressions

You are working on a scratch git worktree of the Python project aws-durable-execution-sdk-python (an SDK for AWS Lambda durable
functions: a checkpoint-and-replay workflow engine with steps, waits, callbacks, invokes, map/parallel, child contexts and a
background checkpoint batcher thread). Your worktree is {wt}. Work ONLY inside {wt}. Never read, list or modify /repo or /verif.
Do NOT modify anything under {wt}/src or {wt}/tests (copy files elsewhere inside {wt} if you want to experiment with a variant).

## Running things
* Test-suite: `cd {wt} && PYTHONPATH={wt}/src /venv/bin/python -m pytest -q -p no:cacheprovider -n 8 --timeout=900`   (1080 tests, ~15 s, all pass)
* Any script you write must be run with `PYTHONPATH={wt}/src`, and NOT with `src/aws_durable_execution_sdk_python` as current
  directory (it contains threading.py and types.py which would shadow the standard library).
* NEVER use `git stash`. `git show <commit>` / `git log -p` are fine.

## The commits to review
{commits}

Each of them was made to repair a defect against one of the properties below. Earlier repairs in this history introduced regressions that were
only found later (a read-only "orphan" query that rejected legitimate re-traversals and hung the invocation; a fallback value that was wrong for a
zero initial delay), so: for every commit above, read `git show <commit>`, work out what it changed for ALL callers and ALL inputs - not only the
scenario in its message - and try hard to find an input, configuration, history, crash point or thread interleaving for which the code AFTER the
commit behaves worse than before it, or violates one of the properties, or hangs / leaks / raises where it did not. Also say whether the repair
actually closes the defect it describes for every variant of the trigger (nested contexts, map/parallel branches, paginated history, re-invocation,
in-process resumption by the resume timer, early completion with left-behind branches, failures of the checkpoint API at every point).

## Properties (the SDK is supposed to satisfy these)
{props}

## What to deliver (in {wt})
 - for every regression / incomplete repair you can demonstrate (at most 3): `finding_<n>.py`, a standalone script that exits non-zero
   (assertion failure with a clear message) on the current code, and - in your final reply - a paragraph saying which commit, which
   code (file:function), what it needs to manifest, and what a minimal correction would be;
 - per commit, one line in your final reply: "in order" (with what you ran) or the finding;
 - do not invent findings: if you cannot reproduce something, list it under "suspicions" and say so.
Drive the real code: build ExecutionState / DurableContext objects directly with a fake service client, or drive the `durable_execution`
wrapper with a `DurableExecutionInvocationInputWithClient` and an in-memory fake backend that records checkpoints and plays them back as
history (look at tests/ for how to construct such objects). Force interleavings with threading.Event or by wrapping methods; use timeouts so
that a hang is detected. If a tool refuses to write a report file, put the text in your final reply.
"""
for name, g in groups.items():
    wt = f"/tmp/wt/{rnd}_{name}"
    if not Path(wt).exists():
        subprocess.run(["git", "-C", "/repo", "worktree", "add", "-q", "--detach", wt, "HEAD"], check=True)
    commits = "\n".join("* " + subprocess.run(["git", "-C", "/repo", "log", "-1", "--format=%h %s", c], capture_output=True, text=True).stdout.strip() for c in g["commits"])
    ptxt = "\n\n".join(f"{pid}: {props[pid]['title']}\n{props[pid]['statement']}" for pid in g["props"])
    Path(wt, "TASK.md").write_text(TEMPLATE.format(name=name, wt=wt, commits=commits, props=ptxt))
    print("created", wt)
