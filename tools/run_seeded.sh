#!/bin/bash
# applies every kept seeded mutant to /repo in turn and runs all checks; expects at least one VIOLATION each
cd /verif
for d in seeded/*/; do
  id=$(basename $d)
  out=$(tools/try_patch.sh /verif/${d}patch.diff 2>&1)
  n=$(echo "$out" | grep -c "^VIOLATION"); a=$(echo "$out" | grep -c "does not apply")
  e=$(echo "$out" | grep -c "ANALYSIS-ERROR")
  echo "$id violations=$n analysis_errors=$e notapplied=$a $(echo "$out" | grep -m1 '  rule' | cut -c1-140)"
done
