"""Crude mutation scan of the SDK, used to find places NO check looks at (not a registered check: it runs the test-suite).

For every sampled single-point mutant of the SDK's source (condition negated, comparison / boolean operator swapped, constant changed, enum member
replaced by a sibling, statement deleted) on a scratch copy of /repo HEAD:
  1. the repository's own test-suite is run (-x): a mutant the tests kill is of no interest here;
  2. for a survivor the 20 checks are run against the scratch copy (VERIF_REPO) and the ones that fire are recorded.
Survivors on which nothing fires are listed for triage by hand (equivalent / harmless / a gap in the checks).

usage: python3 tools/mutscan.py --out /tmp/mutscan [--files state.py concurrency/executor.py ...] [--max 400] [--jobs 4] [--seed 1]
"""
from __future__ import annotations

import argparse
import ast
import json
import os
import random
import shutil
import subprocess
import sys
from concurrent.futures import ThreadPoolExecutor
from pathlib import Path

PKG = "src/aws_durable_execution_sdk_python"
DEFAULT_FILES = ["state.py", "execution.py", "context.py", "threading.py", "suspend.py", "retries.py", "waits.py", "serdes.py", "logger.py", "lambda_service.py",
                 "exceptions.py", "config.py", "concurrency/executor.py", "concurrency/models.py", "operation/base.py", "operation/step.py", "operation/child.py",
                 "operation/wait.py", "operation/invoke.py", "operation/callback.py", "operation/wait_for_condition.py", "operation/map.py", "operation/parallel.py"]
CMP = {ast.Lt: "<=", ast.LtE: "<", ast.Gt: ">=", ast.GtE: ">", ast.Eq: "!=", ast.NotEq: "==", ast.Is: "is not", ast.IsNot: "is", ast.In: "not in", ast.NotIn: "in"}
CMP_TXT = {ast.Lt: "<", ast.LtE: "<=", ast.Gt: ">", ast.GtE: ">=", ast.Eq: "==", ast.NotEq: "!=", ast.Is: "is", ast.IsNot: "is not", ast.In: "in", ast.NotIn: "not in"}


def seg(src_lines, node):
    """(start offset, end offset) of a node in the file text."""
    starts = [0]
    for ln in src_lines:
        starts.append(starts[-1] + len(ln))
    # col offsets are in utf-8 bytes; the SDK's source is ASCII except in a few string literals - convert per line
    def off(lineno, col):
        line = src_lines[lineno - 1]
        return starts[lineno - 1] + len(line.encode("utf-8")[:col].decode("utf-8"))
    return off(node.lineno, node.col_offset), off(node.end_lineno, node.end_col_offset)


def enum_members(tree):
    out = {}
    for n in ast.walk(tree):
        if isinstance(n, ast.ClassDef) and any("Enum" in ast.unparse(b) for b in n.bases):
            out[n.name] = [t.id for st in n.body if isinstance(st, ast.Assign) for t in st.targets if isinstance(t, ast.Name)]
    return out


def mutants_of(path: Path, rel: str, enums: dict):
    text = path.read_text()
    lines = text.splitlines(keepends=True)
    tree = ast.parse(text)
    parents = {}
    for n in ast.walk(tree):
        for c in ast.iter_child_nodes(n):
            parents[id(c)] = n

    def func_of(n):
        cur, names = parents.get(id(n)), []
        while cur is not None:
            if isinstance(cur, (ast.FunctionDef, ast.ClassDef)):
                names.insert(0, cur.name)
            cur = parents.get(id(cur))
        return ".".join(names)

    def in_skipped(n):
        cur = n
        while cur is not None:
            if isinstance(cur, ast.FunctionDef) and cur.name in ("__repr__", "__str__", "build_logger_extras"):
                return True
            if isinstance(cur, ast.If) and "TYPE_CHECKING" in ast.unparse(cur.test):
                return True
            if isinstance(cur, ast.Call) and ast.unparse(cur.func).split(".")[0] in ("logger", "logging"):
                return True
            if isinstance(cur, ast.Raise) and cur is not n:
                return True  # message construction
            cur = parents.get(id(cur))
        return False
    out = []

    def add(kind, node, new_text, note=""):
        a, b = seg(lines, node)
        out.append({"file": rel, "kind": kind, "line": node.lineno, "fn": func_of(node), "old": text[a:b][:120], "new": new_text[:120], "a": a, "b": b, "repl": new_text, "note": note})
    for n in ast.walk(tree):
        if not hasattr(n, "lineno") or in_skipped(n):
            continue
        if isinstance(n, (ast.If, ast.While, ast.IfExp)):
            add("COND_NEG", n.test, f"(not ({ast.unparse(n.test)}))")
        if isinstance(n, ast.Compare) and len(n.ops) == 1 and type(n.ops[0]) in CMP:
            l, r = ast.unparse(n.left), ast.unparse(n.comparators[0])
            add("CMP", n, f"{l} {CMP[type(n.ops[0])]} {r}")
        if isinstance(n, ast.BoolOp) and len(n.values) >= 2:
            op = " or " if isinstance(n.op, ast.And) else " and "
            add("BOOL", n, "(" + op.join(f"({ast.unparse(v)})" for v in n.values) + ")")
        if isinstance(n, ast.Constant) and not isinstance(parents.get(id(n)), (ast.Expr, ast.JoinedStr, ast.FormattedValue)):
            if isinstance(n.value, bool):
                add("CONST", n, str(not n.value))
            elif isinstance(n.value, int) and not isinstance(n.value, bool) and abs(n.value) < 10**6:
                add("CONST", n, str(n.value + 1))
        if isinstance(n, ast.Attribute) and isinstance(n.value, ast.Name) and n.value.id in enums and n.attr in enums[n.value.id] and isinstance(n.ctx, ast.Load):
            sib = [m for m in enums[n.value.id] if m != n.attr]
            if sib:
                i = enums[n.value.id].index(n.attr)
                add("ENUM", n, f"{n.value.id}.{sib[i % len(sib)]}")
        if isinstance(n, ast.Expr) and isinstance(n.value, ast.Call) and ast.unparse(n.value.func).split(".")[0] not in ("logger", "logging"):
            add("DEL_CALL", n, "pass")
        if isinstance(n, (ast.Assign, ast.AugAssign)) and not isinstance(parents.get(id(n)), (ast.ClassDef, ast.Module)):
            tg = n.targets[0] if isinstance(n, ast.Assign) else n.target
            if isinstance(tg, (ast.Attribute, ast.Subscript)):
                add("DEL_STORE", n, "pass")
        if isinstance(n, ast.Return) and n.value is not None and not (isinstance(n.value, ast.Constant) and n.value.value is None):
            add("RETURN_NONE", n, "return None")
        # two adjacent simple statements exchanged (ordering is what many of the properties are about)
        for fld in ("body", "orelse", "finalbody"):
            blk = getattr(n, fld, None)
            if isinstance(blk, list):
                for s1, s2 in zip(blk, blk[1:]):
                    simple = (ast.Expr, ast.Assign, ast.AugAssign, ast.AnnAssign)
                    if isinstance(s1, simple) and isinstance(s2, simple) and not in_skipped(s1) and not in_skipped(s2) \
                            and not (isinstance(s1, ast.Expr) and isinstance(s1.value, ast.Constant)) \
                            and not any(ast.unparse(x.value.func).split(".")[0] in ("logger", "logging") for x in (s1, s2) if isinstance(x, ast.Expr) and isinstance(x.value, ast.Call)):
                        a1, b1 = seg(lines, s1)
                        a2, b2 = seg(lines, s2)
                        out.append({"file": rel, "kind": "SWAP_ADJ", "line": s1.lineno, "fn": func_of(s1), "old": (text[a1:b1] + " ;; " + text[a2:b2])[:120], "new": "swapped",
                                    "a": a1, "b": b2, "repl": text[a2:b2] + text[b1:a2] + text[a1:b1], "note": ""})
        if isinstance(n, ast.Raise) and not in_skipped(parents.get(id(n))):
            add("DEL_RAISE", n, "pass")
        # scan 4 operators: a guard that always / never passes, one operand of a conjunction dropped, arguments exchanged, a keyword argument left to its default,
        # arithmetic operator swapped, break <-> continue, one attribute of self taken for another one the same function uses
        if isinstance(n, (ast.If, ast.While, ast.IfExp)) and not isinstance(n.test, ast.Constant):
            add("COND_TRUE", n.test, "True")
            add("COND_FALSE", n.test, "False")
        if isinstance(n, ast.BoolOp) and len(n.values) >= 2:
            op = " and " if isinstance(n.op, ast.And) else " or "
            for i in range(len(n.values)):
                rest = [v for j, v in enumerate(n.values) if j != i]
                add("BOOL_DROP", n, "(" + op.join(f"({ast.unparse(v)})" for v in rest) + ")", note=f"operand {i} dropped")
        if isinstance(n, ast.UnaryOp) and isinstance(n.op, ast.Not) and not isinstance(parents.get(id(n)), (ast.If, ast.While, ast.IfExp)):
            add("NOT_DROP", n, f"({ast.unparse(n.operand)})")
        if isinstance(n, ast.Call) and not any(isinstance(x, ast.Starred) for x in n.args):
            if len(n.args) >= 2 and ast.unparse(n.args[0]) != ast.unparse(n.args[1]):
                a0, b0 = seg(lines, n.args[0])
                a1, b1 = seg(lines, n.args[1])
                out.append({"file": rel, "kind": "ARG_SWAP", "line": n.lineno, "fn": func_of(n), "old": text[a0:b1][:120], "new": "swapped", "a": a0, "b": b1,
                            "repl": text[a1:b1] + text[b0:a1] + text[a0:b0], "note": ""})
            for kw in n.keywords:
                if kw.arg is not None and len(n.keywords) + len(n.args) >= 2:
                    c = ast.Call(func=n.func, args=n.args, keywords=[k for k in n.keywords if k is not kw])
                    add("KW_DROP", n, ast.unparse(c), note=f"keyword {kw.arg} dropped")
        if isinstance(n, ast.BinOp) and type(n.op) in (ast.Add, ast.Sub, ast.Mult, ast.Div, ast.FloorDiv) and not isinstance(n.left, ast.Constant) or \
                isinstance(n, ast.BinOp) and type(n.op) in (ast.Add, ast.Sub) and isinstance(n.left, ast.Constant) and isinstance(n.left.value, (int, float)):
            sw = {ast.Add: "-", ast.Sub: "+", ast.Mult: "/", ast.Div: "*", ast.FloorDiv: "*"}[type(n.op)]
            if not (isinstance(n.left, ast.Constant) and isinstance(n.left.value, str)) and not (isinstance(n.right, ast.Constant) and isinstance(n.right.value, str)):
                add("ARITH", n, f"({ast.unparse(n.left)}) {sw} ({ast.unparse(n.right)})")
        if isinstance(n, ast.Break):
            add("BRK_CONT", n, "continue")
        if isinstance(n, ast.Continue):
            add("BRK_CONT", n, "break")
        if isinstance(n, ast.FunctionDef):
            attrs = []
            for x in ast.walk(n):
                if isinstance(x, ast.Attribute) and isinstance(x.value, ast.Name) and x.value.id == "self" and x.attr not in attrs:
                    attrs.append(x.attr)
            if len(attrs) >= 2:
                for x in ast.walk(n):
                    if isinstance(x, ast.Attribute) and isinstance(x.value, ast.Name) and x.value.id == "self" and not in_skipped(x) \
                            and not isinstance(parents.get(id(x)), ast.Call) :
                        i = attrs.index(x.attr)
                        add("SELF_ATTR", x, f"self.{attrs[(i + 1) % len(attrs)]}")
    return text, out


def run(cmd, env=None, cwd=None, timeout=600):
    try:
        p = subprocess.run(cmd, shell=True, env=env, cwd=cwd, capture_output=True, text=True, timeout=timeout)
        return p.returncode, p.stdout + p.stderr
    except subprocess.TimeoutExpired:
        return 124, "timeout"


def main():
    ap = argparse.ArgumentParser()
    ap.add_argument("--out", required=True)
    ap.add_argument("--files", nargs="*", default=DEFAULT_FILES)
    ap.add_argument("--max", type=int, default=400)
    ap.add_argument("--jobs", type=int, default=4)
    ap.add_argument("--seed", type=int, default=1)
    ap.add_argument("--skip", type=int, default=0, help="leave out the first N mutants of the shuffled list (continue an earlier scan with the same seed)")
    ap.add_argument("--verif", default=str(Path(__file__).resolve().parent.parent))
    ap.add_argument("--kinds", nargs="*", default=None)
    a = ap.parse_args()
    out = Path(a.out)
    out.mkdir(parents=True, exist_ok=True)
    base = out / "base"
    if base.exists():
        shutil.rmtree(base)
    base.mkdir()
    subprocess.run(f"git -C /repo archive HEAD src tests pyproject.toml | tar -x -C {base}", shell=True, check=True)
    enums = {}
    for f in (base / PKG).rglob("*.py"):
        enums.update(enum_members(ast.parse(f.read_text())))
    allm = []
    texts = {}
    for rel in a.files:
        text, ms = mutants_of(base / PKG / rel, rel, enums)
        texts[rel] = text
        allm += ms
    if a.kinds:
        allm = [m for m in allm if m["kind"] in a.kinds]
    rnd = random.Random(a.seed)
    rnd.shuffle(allm)
    chosen = allm[a.skip: a.skip + a.max]
    print(f"{len(allm)} candidate mutants in {len(a.files)} files, {len(chosen)} sampled", flush=True)
    res_path = out / "results.jsonl"
    done = set()
    if res_path.exists():
        for l in res_path.read_text().splitlines():
            d = json.loads(l)
            done.add((d["file"], d["a"], d["repl"]))

    def work(idx_m):
        idx, m = idx_m
        if (m["file"], m["a"], m["repl"]) in done:
            return
        w = out / f"w{idx % (a.jobs * 2)}_{os.getpid()}_{idx}"
        shutil.copytree(base, w)
        try:
            t = texts[m["file"]]
            new = t[: m["a"]] + m["repl"] + t[m["b"]:]
            try:
                ast.parse(new)
            except SyntaxError:
                return
            (w / PKG / m["file"]).write_text(new)
            env = dict(os.environ, PYTHONPATH=str(w / "src"))
            rc, o = run("/venv/bin/python -m pytest -x -q -p no:cacheprovider -n 4 --timeout=120 tests 2>&1 | tail -n 3", env=env, cwd=str(w), timeout=400)
            survived = " passed" in o and "failed" not in o and "error" not in o.lower()
            rec = {k: v for k, v in m.items()}
            rec["survived"] = survived
            rec["fired"] = []
            if survived:
                ev, rp, od = w / "ev", w / "rp", w / "co"
                for d in (ev, rp, od):
                    d.mkdir()
                cmd = ("echo 01 02 03 04 05 06 07 08 09 10 11 12 13 14 15 16 17 18 19 20 | tr ' ' '\\n' | xargs -P 5 -I{} bash -c "
                       f"'VERIF_REPO={w} VERIF_EVIDENCE_DIR={ev} VERIF_REPLAY_DIR={rp} /venv/bin/python -m checks.c{{}} > {od}/{{}}.out 2>&1; echo $? > {od}/{{}}.rc'")
                run(cmd, cwd=a.verif, timeout=900)
                for n in range(1, 21):
                    f = od / f"{n:02d}.rc"
                    rc_ = f.read_text().strip() if f.exists() else "?"
                    if rc_ != "0":
                        rule = ""
                        txt = (od / f"{n:02d}.out").read_text() if (od / f"{n:02d}.out").exists() else ""
                        for ln in txt.splitlines():
                            if ln.startswith("  rule ") or ln.startswith("ANALYSIS-ERROR"):
                                rule = ln.strip()[:160]
                                break
                        rec["fired"].append({"check": f"C{n:02d}", "rc": rc_, "rule": rule})
            with open(res_path, "a") as fh:
                fh.write(json.dumps(rec) + "\n")
            print(f"[{idx}] {m['file']}:{m['line']} {m['kind']} {m['fn']} :: {'SURVIVED' if survived else 'killed'}"
                  f"{' fired=' + ','.join(x['check'] + ('(2)' if x['rc'] == '2' else '') for x in rec['fired']) if survived else ''}", flush=True)
        finally:
            shutil.rmtree(w, ignore_errors=True)
    with ThreadPoolExecutor(max_workers=a.jobs) as ex:
        list(ex.map(work, enumerate(chosen)))
    # summary
    recs = [json.loads(l) for l in res_path.read_text().splitlines()]
    surv = [r for r in recs if r["survived"]]
    und = [r for r in surv if not any(x["rc"] == "1" for x in r["fired"])]
    print(f"\n{len(recs)} mutants run, {len(surv)} survive the test-suite, {len(surv) - len(und)} of those reported by a check (exit 1), {len(und)} not reported")
    shutil.rmtree(base, ignore_errors=True)


if __name__ == "__main__":
    main()
