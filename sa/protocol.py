"""E4 driver: per (executor, backend status) cell, the finite set of event traces.

The cells are enumerated here; everything else (predicates of CheckpointedResult,
the process() template, suspend helpers, update factories, error conversion) is
interpreted from the repository's own source.
"""

from __future__ import annotations

import ast
from dataclasses import dataclass, field

from .interp import BoundExt, Chooser, Config, Interp, SpecialObj, _Raise, _Return, enumerate_paths
from .model import AnalysisError, ClassInfo, FuncInfo, Program
from .values import (
    NONE,
    AbstractExc,
    ClassVal,
    Const,
    DictVal,
    EnumVal,
    FuncVal,
    Event,
    Obj,
    SeqVal,
    Sym,
    TypeRef,
    Unknown,
    UserFn,
    V,
    parse_annotation,
)

ABSENT = "ABSENT"

SUSPEND_FQ = "aws_durable_execution_sdk_python.exceptions.SuspendExecution"
TIMED_SUSPEND_FQ = "aws_durable_execution_sdk_python.exceptions.TimedSuspendExecution"
BTE_FQ = "aws_durable_execution_sdk_python.exceptions.BackgroundThreadError"
ORPHAN_FQ = "aws_durable_execution_sdk_python.exceptions.OrphanedChildException"
EXECUTION_ERROR_FQ = "aws_durable_execution_sdk_python.exceptions.ExecutionError"

# What a user-supplied callable may raise (seed table, see DESIGN E3).
#  - leaf callables (step function, condition check, strategies, summary generator):
#    any Exception subclass;
#  - a context body runs nested durable operations, so it can additionally let the
#    three BaseException control classes escape.
CONTEXT_BODY_RAISES = (
    "builtins.Exception*",
    SUSPEND_FQ,
    TIMED_SUSPEND_FQ,
    BTE_FQ,
    ORPHAN_FQ,
)


@dataclass
class Trace:
    cell: tuple
    events: list[Event]
    outcome: str  # return | raise
    value: V | None
    raise_origin: str = ""
    raise_site: str = ""
    pc: list = field(default_factory=list)
    notes: list = field(default_factory=list)

    # ---- helpers -------------------------------------------------------
    def kinds(self, *ks):
        return [e for e in self.events if e.kind in ks]

    def exc_class(self) -> str | None:
        if self.outcome != "raise":
            return None
        return exc_class_of(self.value)

    def brief(self) -> dict:
        out = {
            "cell": list(self.cell),
            "events": [e.brief() for e in self.events if e.kind not in ("CATCH", "WITH_ENTER", "WITH_EXIT", "SETATTR", "OPAQUE", "DECIDE")],
            "outcome": self.outcome,
        }
        if self.outcome == "raise":
            out["raises"] = f"{self.exc_class()} ({self.raise_origin}) at {self.raise_site}"
        else:
            out["returns"] = self.value.key() if self.value is not None else None
        out["path"] = [f"{k} -> {v}" for k, v in self.pc]
        return out


def exc_class_of(v: V) -> str:
    if isinstance(v, Obj):
        return v.cls_fq
    if isinstance(v, AbstractExc):
        return v.base_fq + "*"
    if isinstance(v, Sym) and v.typ is not None and v.typ.classes:
        return "|".join(v.typ.classes)
    return f"?{v.key()}"


def short(fq: str | None) -> str | None:
    return fq.rsplit(".", 1)[-1] if fq else fq


class ProtocolModel:
    """Builds interpreter configurations and runs cells."""

    def __init__(self, prog: Program):
        self.prog = prog
        self.state_cls = prog.cls("state", "ExecutionState")
        self.ckpt_fn = prog.func("state", "ExecutionState.create_checkpoint")
        self.op_cls = prog.cls("lambda_service", "Operation")
        self.status_cls = prog.cls("lambda_service", "OperationStatus")
        self.optype_cls = prog.cls("lambda_service", "OperationType")
        self.update_cls = prog.cls("lambda_service", "OperationUpdate")
        self.base_exec = prog.cls("operation.base", "OperationExecutor")
        self.statuses = [ABSENT, *self.status_cls.enum_members]
        self.executors = self._discover_executors()

    # ------------------------------------------------------------------
    def _discover_executors(self) -> dict[str, ClassInfo]:
        out = {}
        for c in self.prog.classes.values():
            if c.fq != self.base_exec.fq and c.is_subclass_of(self.base_exec.fq):
                out[c.name] = c
        if len(out) < 6:
            raise AnalysisError(f"expected >= 6 OperationExecutor subclasses, found {sorted(out)}")
        return dict(sorted(out.items()))

    def executor_optype(self, ci: ClassInfo) -> str:
        """OperationType of the updates an executor sends, read from the factories it calls."""
        types: dict[str, int] = {}
        for fn in ci.methods.values():
            for node in ast.walk(fn.node):
                if (
                    isinstance(node, ast.Call)
                    and isinstance(node.func, ast.Attribute)
                    and isinstance(node.func.value, ast.Name)
                    and node.func.value.id == "OperationUpdate"
                ):
                    fac = self.update_cls.methods.get(node.func.attr)
                    if fac is None:
                        continue
                    for n2 in ast.walk(fac.node):
                        if isinstance(n2, ast.keyword) and n2.arg == "operation_type" and isinstance(n2.value, ast.Attribute):
                            types[n2.value.attr] = types.get(n2.value.attr, 0) + 1
        ranked = sorted(types.items(), key=lambda kv: -kv[1])
        if not ranked or (len(ranked) > 1 and ranked[0][1] == ranked[1][1]):
            raise AnalysisError(f"cannot derive the operation type of {ci.name}: {ranked}")
        # majority vote: a single odd factory is then reported by the kind-purity rule (C11/R2)
        return ranked[0][0]

    # ------------------------------------------------------------------ hooks
    def make_config(self, *, faults: bool, user_raises: dict, inline_process: bool = True, extra_hooks=None) -> Config:
        p = self.prog
        hooks = {
            self.ckpt_fn.fq: lambda it, fn, sv, a, k, n: self._hook_ckpt(it, fn, sv, a, k, n, faults),
            p.func("serdes", "serialize").fq: lambda it, fn, sv, a, k, n: self._hook_serdes(it, "SER", fn, a, k, n, faults),
            p.func("serdes", "deserialize").fq: lambda it, fn, sv, a, k, n: self._hook_serdes(it, "DES", fn, a, k, n, faults),
            p.func("retries", "create_retry_strategy").fq: self._hook_strategy,
            p.func("waits", "create_wait_strategy").fq: self._hook_strategy,
            p.func("state", "ExecutionState.track_replay").fq: self._hook_track,
        }
        rio = self.state_cls.methods.get("raise_if_orphaned")
        if rio is not None:
            def _hook_orphancheck(it, fn, sv, a, k, n):
                # read-only orphan query (the counterpart of the guard inside create_checkpoint)
                it.emit("ORPHANCHECK", n, id=(a[0].key() if a else k.get("operation_id", NONE).key()),
                        parent=(a[1].key() if len(a) > 1 else k.get("parent_id", NONE).key()))
                return NONE
            hooks[rio.fq] = _hook_orphancheck
        rib = self.state_cls.methods.get("raise_if_in_orphaned_branch")
        if rib is not None:
            def _hook_branchcheck(it, fn, sv, a, k, n):
                # entry query: is the nearest enclosing context that is still open (the branch doing the work) orphaned?
                # (its semantics are judged separately on small scenarios: common.branch_query_scenarios)
                it.emit("BRANCHCHECK", n, parent=(a[0].key() if a else k.get("parent_id", NONE).key()))
                return NONE
            hooks[rib.fq] = _hook_branchcheck
        if extra_hooks:
            hooks.update(extra_hooks)
        return Config(
            hooks=hooks,
            opaque_modules=("logger",),
            user_raises=user_raises,
            ext_calls={
                "time.time": lambda it, a, k, n: Sym("time.time()", TypeRef(prim="float")),
                "datetime.datetime.now": lambda it, a, k, n: Sym("datetime.now()", TypeRef(prim="ext:datetime.datetime")),
            },
        )

    def _hook_ckpt(self, it: Interp, fn: FuncInfo, self_val, args, kwargs, node, faults: bool):
        a = fn.node.args
        names = [x.arg for x in a.args][1:]  # drop self
        defaults = dict(zip([x.arg for x in a.args][-len(a.defaults):], a.defaults)) if a.defaults else {}
        bound: dict[str, V] = {}
        for i, nme in enumerate(names):
            if i < len(args):
                bound[nme] = args[i]
            elif nme in kwargs:
                bound[nme] = kwargs[nme]
            elif nme in defaults:
                bound[nme] = it._eval_in_module(fn.module, defaults[nme])
            else:
                bound[nme] = Unknown(f"missing:{nme}")
        upd = bound.get("operation_update", NONE)
        sync_v = bound.get("is_sync", Unknown("is_sync"))
        if isinstance(sync_v, Const):
            sync = bool(sync_v.value)
        else:
            sync = it.truth(sync_v)
        data = {"sync": sync, "update": upd.key(), "update_v": upd}
        if isinstance(upd, Obj) and upd.cls is not None and upd.cls.fq == self.update_cls.fq:
            f = upd.fields
            data.update(
                type=_enum_name(f.get("operation_type")),
                sub_type=_enum_name(f.get("sub_type")),
                action=_enum_name(f.get("action")),
                payload=f.get("payload", NONE).key(),
                payload_v=f.get("payload", NONE),
                error=f.get("error", NONE).key(),
                error_v=f.get("error", NONE),
                operation_id=f.get("operation_id", NONE).key(),
                parent_id=f.get("parent_id", NONE).key(),
                name=f.get("name", NONE).key(),
                options={k: v for k, v in f.items() if k.endswith("_options") and not (isinstance(v, Const) and v.value is None)},
            )
        elif isinstance(upd, Const) and upd.value is None:
            data.update(type=None, sub_type=None, action="EMPTY")
        else:
            data.update(type="?", sub_type="?", action="?")
        n = sum(1 for e in it.events if e.kind == "CKPT") + 1
        data["n"] = n
        ev = it.emit("CKPT", node, **data)
        if faults:
            opts = ["ok", BTE_FQ]
            if data["action"] != "EMPTY" and data.get("parent_id") != "None":
                # only an operation that has a parent context can be orphaned
                opts.append(ORPHAN_FQ)
            c = it.decide(f"CKPT#{n} outcome", len(opts), [short(o) for o in opts])
            ev.data["outcome"] = short(opts[c])
            if c != 0:
                raise _Raise(it.make_exc(opts[c], f"CKPT#{n}"), it.site(node))
        else:
            ev.data["outcome"] = "ok"
        return NONE

    def _hook_serdes(self, it: Interp, kind: str, fn: FuncInfo, args, kwargs, node, faults: bool):
        a = [x.arg for x in fn.node.args.args]
        bound = {}
        for i, nme in enumerate(a):
            if i < len(args):
                bound[nme] = args[i]
            elif nme in kwargs:
                bound[nme] = kwargs[nme]
        serdes = bound.get("serdes", NONE)
        src = bound.get("value" if kind == "SER" else "data", NONE)
        n = sum(1 for e in it.events if e.kind == kind) + 1
        ev = it.emit(kind, node, serdes=serdes.key(), src=src.key(), serdes_v=serdes, src_v=src, n=n,
                     operation_id=bound.get("operation_id", NONE).key())
        if faults:
            c = it.decide(f"{kind}#{n} outcome", 2, ["ok", "ExecutionError"])
            ev.data["outcome"] = ["ok", "ExecutionError"][c]
            if c == 1:
                raise _Raise(it.make_exc(EXECUTION_ERROR_FQ, f"{kind}#{n}"), it.site(node))
        typ = TypeRef(prim="str") if kind == "SER" else None
        return Sym(f"{kind}#{n}({serdes.key()},{src.key()})", typ, parts=(kind, serdes, src))

    def _hook_strategy(self, it: Interp, fn: FuncInfo, self_val, args, kwargs, node):
        ret = parse_annotation(self.prog, fn.module, fn.node.returns)
        return UserFn(f"packaged:{fn.name}", ret.ret if ret else None)

    def _hook_track(self, it: Interp, fn: FuncInfo, self_val, args, kwargs, node):
        v = args[0] if args else kwargs.get("operation_id", NONE)
        it.emit("TRACK", node, operation_id=v.key())
        return NONE

    # ------------------------------------------------------------------ state model
    def make_state(self, it: Interp, cell_status: str, optype: str) -> Obj:
        cache: dict = {}
        model = self

        def ops_get(interp: Interp, args, kwargs, node):
            n_sync = sum(1 for e in interp.events if e.kind == "CKPT" and e.data.get("outcome") == "ok" and e.data["sync"])
            n_async = sum(1 for e in interp.events if e.kind == "CKPT" and e.data.get("outcome") == "ok" and not e.data["sync"])
            gen = (n_sync, n_async)
            if gen not in cache:
                cache[gen] = model._make_operation(interp, cell_status, optype, gen)
            op = cache[gen]
            st = "ABSENT" if op is NONE else op.fields["status"].key()
            interp.emit("READ", node, gen=f"{n_sync}.{n_async}", status=st,
                        id=(args[0].key() if args else "?"))
            return op

        ops = SpecialObj("state.operations", {"get": ops_get})
        state = Obj(self.state_cls, label="state")
        state.fields["operations"] = ops
        state.fields["durable_execution_arn"] = Sym("state.durable_execution_arn", TypeRef(prim="str"))
        return state

    def _make_operation(self, it: Interp, cell_status: str, optype: str, gen) -> V:
        n_sync, n_async = gen
        label = f"op@{n_sync}.{n_async}"
        if n_sync == 0 and n_async == 0:
            if cell_status == ABSENT:
                return NONE
            status: V = EnumVal(self.status_cls.fq, cell_status, self.status_cls.enum_members[cell_status])
        else:
            if n_sync == 0 and cell_status == ABSENT:
                # only fire-and-forget updates so far: the response may not have been merged yet
                if it.decide_bool(f"{label} still absent"):
                    return NONE
            status = Sym(f"{label}.status", TypeRef(classes=(self.status_cls.fq,)))
        op = Obj(self.op_cls, label=label)
        op.fields["status"] = status
        op.fields["operation_type"] = EnumVal(self.optype_cls.fq, optype, self.optype_cls.enum_members[optype])
        return op

    # ------------------------------------------------------------------ running
    def run_cell(self, ci: ClassInfo, status: str, *, faults: bool = True, ctor_overrides=None) -> list[Trace]:
        optype = self.executor_optype(ci)
        is_context = optype == "CONTEXT"
        user_raises = {}
        if is_context:
            user_raises = {"func": list(CONTEXT_BODY_RAISES)}
        cfg = self.make_config(faults=faults, user_raises=user_raises)

        def run(ch: Chooser) -> Trace:
            it = Interp(self.prog, ch, cfg)
            it.site_stack.append("<driver>")
            state = self.make_state(it, status, optype)
            init = ci.find_method("__init__")
            kwargs: dict[str, V] = {}
            if init is not None:
                a = init.node.args
                for p in (a.args[1:] + a.kwonlyargs):
                    if p.arg == "state":
                        kwargs[p.arg] = state
                    else:
                        kwargs[p.arg] = Sym(p.arg, parse_annotation(self.prog, init.module, p.annotation))
            if ctor_overrides:
                kwargs.update(ctor_overrides(it))
            if status != "SUCCEEDED":
                # model assumption: the ReplayChildren flag is only ever written by a SUCCEED record,
                # so an operation found in any other status does not carry it
                it.memo["truthy(op@0.0.context_details.replay_children)"] = 1
            try:
                executor = it.construct(ci, [], kwargs, None)
                executor.label = "executor"
                it.events.clear()
                proc = it.getattr_v(executor, "process")
                v = it.call_value(proc, [], {}, None)
                return Trace((ci.name, status), it.events, "return", v, pc=it.pc, notes=it.notes)
            except _Raise as r:
                return Trace((ci.name, status), it.events, "raise", r.exc, r.origin, r.site, pc=it.pc, notes=it.notes)

        return enumerate_paths(run)

    def run_function(self, fn: FuncInfo, self_val_factory, kwargs_factory, *, cell, faults=False, user_raises=None,
                     extra_hooks=None, ext_method_hooks=None, ext_calls=None, status=ABSENT, optype="STEP",
                     loop_iters=1, while_iters=2, cfg_attrs=None) -> list[Trace]:
        """Generic entry: interpret `fn` with driver-built arguments."""
        cfg = self.make_config(faults=faults, user_raises=user_raises or {}, extra_hooks=extra_hooks)
        for k_, v_ in (cfg_attrs or {}).items():
            setattr(cfg, k_, v_)
        cfg.ext_method_hooks = ext_method_hooks
        if ext_calls:
            cfg.ext_calls.update(ext_calls)
        cfg.loop_iters = loop_iters
        cfg.while_iters = while_iters

        def run(ch: Chooser) -> Trace:
            it = Interp(self.prog, ch, cfg)
            it.site_stack.append("<driver>")
            state = self.make_state(it, status, optype)
            try:
                sv = self_val_factory(it, state) if self_val_factory else None
                kw = kwargs_factory(it, state) if kwargs_factory else {}
                it.events.clear()
                v = it.call_function(fn, sv, [], kw, None, fn.cls, None)
                return Trace(cell, it.events, "return", v, pc=it.pc, notes=it.notes)
            except _Raise as r:
                return Trace(cell, it.events, "raise", r.exc, r.origin, r.site, pc=it.pc, notes=it.notes)

        return enumerate_paths(run)

    def table(self, *, faults: bool = True) -> dict[tuple, list[Trace]]:
        out = {}
        for name, ci in self.executors.items():
            for st in self.statuses:
                out[(name, st)] = self.run_cell(ci, st, faults=faults)
        return out


def _enum_name(v):
    if isinstance(v, EnumVal):
        return v.name
    if v is None:
        return None
    if isinstance(v, Const) and v.value is None:
        return None
    return v.key()


# ---------------------------------------------------------------------------
# trace predicates shared by several checks
# ---------------------------------------------------------------------------
def is_suspend(prog: Program, t: Trace) -> bool:
    c = t.exc_class()
    if c is None:
        return False
    c = c.rstrip("*")
    return any(prog.is_subclass(x, SUSPEND_FQ) for x in c.split("|") if x in prog.classes)


def is_timed_suspend(prog: Program, t: Trace) -> bool:
    c = t.exc_class()
    if c is None:
        return False
    return any(prog.is_subclass(x, TIMED_SUSPEND_FQ) for x in c.rstrip("*").split("|") if x in prog.classes)


def user_events(t: Trace, kind: str = "user"):
    """USER events split into user code / strategies / summary generators."""
    out = []
    for e in t.events:
        if e.kind != "USER":
            continue
        lbl = e.data["label"]
        is_strat = lbl.endswith("retry_strategy") or lbl.endswith("wait_strategy") or lbl.startswith("packaged:")
        is_summary = lbl.endswith("summary_generator")
        k = "strategy" if is_strat else "summary" if is_summary else "user"
        if k == kind:
            out.append(e)
    return out


def fault_free(t: Trace) -> bool:
    """No injected infrastructure fault (checkpoint failure / serdes failure) on this trace."""
    for e in t.events:
        if e.kind == "CKPT" and e.data.get("outcome") not in ("ok", None):
            return False
        if e.kind in ("SER", "DES") and e.data.get("outcome") not in ("ok", None):
            return False
    return True


# ---------------------------------------------------------------------------
# context-level model: DurableContext operation methods with process() summarised
# ---------------------------------------------------------------------------
PROCESS_OUTCOMES = ("return", "builtins.Exception*", SUSPEND_FQ, BTE_FQ, ORPHAN_FQ)


def context_method_traces(pm: ProtocolModel, probe_bodies: bool = False) -> dict[str, list[Trace]]:
    """For every public operation method of DurableContext: traces with events
    NEWID (a fresh id was drawn), PROCESS (an executor's process() was called; the
    executor object is attached), TRACK (track_replay), OP (nested context API)."""
    prog = pm.prog
    ctx_cls = prog.cls("context", "DurableContext")
    create_id = ctx_cls.methods.get("_create_step_id")
    if create_id is None:
        raise AnalysisError("DurableContext._create_step_id not found")
    process_fn = pm.base_exec.methods["process"]

    def hook_newid(it, fn, sv, a, k, n):
        idx = sum(1 for e in it.events if e.kind == "NEWID") + 1
        it.emit("NEWID", n, n=idx, ctx=sv.key() if sv is not None else "?")
        return Sym(f"id#{idx}", TypeRef(prim="str"))

    def hook_process(it, fn, sv, a, k, n):
        idx = sum(1 for e in it.events if e.kind == "PROCESS") + 1
        ident = it.getattr_v(sv, "operation_identifier", n) if isinstance(sv, Obj) else NONE
        data = {"executor": sv.cls_name if isinstance(sv, Obj) else sv.key(), "executor_v": sv, "n": idx}
        if isinstance(ident, Obj):
            data["operation_id"] = ident.fields.get("operation_id", NONE).key()
            data["parent_id"] = ident.fields.get("parent_id", NONE).key()
        if isinstance(sv, Obj):
            data["state"] = sv.fields.get("state", NONE).key()
        ev = it.emit("PROCESS", n, **data)
        if probe_bodies and isinstance(sv, Obj) and sv.cls_name == "ChildOperationExecutor":
            # look into the context body: which DurableContext does it hand to user code / the batch handler?
            body = sv.fields.get("func")
            if body is not None:
                try:
                    it.call_value(body, [], {}, n)
                except _Raise:
                    pass
        c = it.decide(f"PROCESS#{idx} outcome", len(PROCESS_OUTCOMES), [short(o) for o in PROCESS_OUTCOMES])
        ev.data["outcome"] = short(PROCESS_OUTCOMES[c])
        if c == 0:
            return Sym(f"ret:process#{idx}")
        raise _Raise(it.make_exc(PROCESS_OUTCOMES[c], f"process#{idx}"), it.site(n))

    def hook_batch_handler(it, fn, sv, a, k, n):
        ctxv = k.get("map_context") or k.get("parallel_context")
        it.emit("BATCH_HANDLER", n, fn=fn.name, context_parent=it.getattr_v(ctxv, "_parent_id", n).key() if ctxv is not None else None,
                operation_id=(it.getattr_v(k["operation_identifier"], "operation_id", n).key() if "operation_identifier" in k else None))
        return Sym("batch")

    extra = {create_id.fq: hook_newid, process_fn.fq: hook_process}
    if probe_bodies:
        extra[pm.prog.func("operation.map", "map_handler").fq] = hook_batch_handler
        extra[pm.prog.func("operation.parallel", "parallel_handler").fq] = hook_batch_handler
    out: dict[str, list[Trace]] = {}
    for name, fn in ctx_cls.methods.items():
        if name.startswith("_") or fn.kind != "method":
            continue
        src = ast.unparse(fn.node)
        if "_create_step_id" not in src and "run_in_child_context" not in src:
            continue

        def self_factory(it, state, ctx_cls=ctx_cls):
            o = Obj(ctx_cls, label="ctx")
            o.fields["state"] = state
            o.fields["_parent_id"] = Sym("ctx._parent_id", TypeRef(prim="str", optional=True))
            return o

        def kw_factory(it, state, fn=fn):
            kw = {}
            a = fn.node.args
            for p in a.args[1:] + a.kwonlyargs:
                kw[p.arg] = Sym(p.arg, parse_annotation(prog, fn.module, p.annotation))
            return kw

        out[name] = pm.run_function(fn, self_factory, kw_factory, cell=("DurableContext", name), extra_hooks=extra,
                                    user_raises={"func": [], "submitter": []} if probe_bodies else None)
    return out


# ---------------------------------------------------------------------------
# wrapper model: durable_execution.<locals>.wrapper with user_future.result() enumerated
# ---------------------------------------------------------------------------
def wrapper_result_outcomes(prog: Program) -> list[str]:
    """Every exception class of the SDK lattice + the builtin roots the wrapper distinguishes."""
    out = ["return"]
    for c in sorted(prog.exception_classes(), key=lambda c: c.fq):
        out.append(c.fq)
    out += ["builtins.Exception*", "builtins.BaseException*"]
    return out


def wrapper_traces(pm: ProtocolModel, *, faults: bool = True, event_mode: str = "client", outcomes=None) -> list[Trace]:
    """event_mode 'client': the event is a DurableExecutionInvocationInputWithClient (test-framework path);
    'dict': the raw Lambda event dictionary (production path)."""
    prog = pm.prog
    wrapper = prog.func("execution", "durable_execution.<locals>.wrapper")
    outer = prog.func("execution", "durable_execution")
    outcomes = list(outcomes) if outcomes else wrapper_result_outcomes(prog)

    def hook_submit(it, recv, args, kwargs, node):
        # two things are submitted to the handler pool: the background checkpoint loop and the user's handler
        if isinstance(recv, Sym) and args:
            tgt = args[0]
            name = tgt.fn.name if isinstance(tgt, FuncVal) else tgt.key()
            if "checkpoint_batches_forever" in name:
                it.emit("BG_START", node)
                return Sym("background.submit()", TypeRef(prim="ext:concurrent.futures.Future"))
        return NotImplemented

    def hook_result(it, recv, args, kwargs, node):
        if isinstance(recv, Sym) and recv.k.startswith("background.submit()"):
            # waiting for the checkpoint loop to end: it returns once it was told to stop (its failures are stored, not raised)
            stopped = any(e.kind == "EXT" and e.data["method"] == "set" and "stop_checkpointing" in e.site for e in it.events)
            it.emit("BG_JOIN", node, after_stop=stopped)
            return NONE
        if not (isinstance(recv, Sym) and ".submit()" in recv.k):
            return NotImplemented
        n = sum(1 for e in it.events if e.kind == "RESULT") + 1
        ev = it.emit("RESULT", node, future=recv.k, n=n)
        c = it.decide(f"future.result()#{n} outcome", len(outcomes), [short(o) for o in outcomes])
        ev.data["outcome"] = outcomes[c]
        if c == 0:
            return Sym(f"handler_result#{n}")
        raise _Raise(it.make_exc(outcomes[c], f"handler#{n}"), it.site(node))

    def hook_dumps(it, args, kwargs, node):
        n = sum(1 for e in it.events if e.kind == "DUMPS") + 1
        ev = it.emit("DUMPS", node, src=args[0].key() if args else "?", n=n, kwargs={k: v.key() for k, v in kwargs.items()})
        # only a user-supplied value can be non-serialisable; SDK-built dicts of strings cannot
        user_value = bool(args) and isinstance(args[0], Sym) and args[0].k.startswith("handler_result")
        opts = ["ok", "builtins.TypeError", "builtins.ValueError"] if user_value else ["ok"]
        c = it.decide(f"json.dumps#{n} outcome", len(opts), opts)
        ev.data["outcome"] = opts[c]
        if c:
            raise _Raise(it.make_exc(opts[c], f"json.dumps#{n}"), it.site(node))
        return Sym(f"json.dumps#{n}({args[0].key() if args else '?'})", TypeRef(prim="str"), parts=("DUMPS", args[0] if args else NONE))

    def hook_fetch(it, fn, sv, a, k, n):
        it.emit("FETCH", n, args=[x.key() for x in a])
        return NONE

    def hook_payload(it, fn, sv, a, k, n):
        return Sym("input_payload", TypeRef(prim="str", optional=True))

    extra = {
        prog.func("state", "ExecutionState.fetch_paginated_operations").fq: hook_fetch,
        prog.func("execution", "InitialExecutionState.get_input_payload").fq: hook_payload,
    }

    rif = pm.state_cls.methods.get("raise_if_checkpointing_failed")
    if rif is not None:
        def hook_failcheck(it, fn, sv, a, k, n):
            ev = it.emit("FAILCHECK", n)
            opts = ["ok", BTE_FQ] if faults else ["ok"]
            c = it.decide(f"failure-state#{sum(1 for e in it.events if e.kind == 'FAILCHECK')}", len(opts), [short(o) for o in opts])
            ev.data["outcome"] = opts[c]
            if c:
                raise _Raise(it.make_exc(BTE_FQ, "stored-failure"), it.site(n))
            return NONE
        extra[rif.fq] = hook_failcheck

    cfg = pm.make_config(faults=faults, user_raises={}, extra_hooks=extra)
    cfg.ext_method_hooks = {"result": hook_result, "submit": hook_submit}
    cfg.ext_calls["json.dumps"] = hook_dumps
    cfg.ext_calls["json.loads"] = lambda it, a, k, n: Sym("json.loads()", None)

    def run(ch: Chooser) -> Trace:
        from .interp import Frame

        it = Interp(prog, ch, cfg)
        it.site_stack.append("<driver>")
        closure = Frame(outer, outer.module, {"func": UserFn("handler"), "boto3_client": NONE})
        try:
            if event_mode == "client":
                ev_cls = prog.cls("execution", "DurableExecutionInvocationInputWithClient")
                event: V = Sym("event", TypeRef(classes=(ev_cls.fq,)))
            else:
                event = DictVal()
                event.open = True
            v = it.call_function(wrapper, None, [], {"event": event, "context": Sym("lambda_context")}, closure, None, None)
            return Trace(("wrapper", ""), it.events, "return", v, pc=it.pc, notes=it.notes)
        except _Raise as r:
            return Trace(("wrapper", ""), it.events, "raise", r.exc, r.origin, r.site, pc=it.pc, notes=it.notes)

    return enumerate_paths(run, max_paths=200000)


# ---------------------------------------------------------------------------
# producer model: ExecutionState.create_checkpoint interpreted on a really constructed state
# ---------------------------------------------------------------------------
def completion_event_hooks(prog: Program) -> dict:
    ce = prog.cls("threading", "CompletionEvent")

    def key(sv):
        return sv.key() if not isinstance(sv, Obj) else (sv.label or f"CompletionEvent#{sv.oid}")

    def seen_set(it, ev):
        return any(e.kind == "EV_ISSET" and e.data["ev"] == ev and e.data["result"] for e in it.events)

    def h_is_set(it, fn, sv, a, k, n):
        # an event is only ever set by another thread, never cleared under the reader: once seen set it stays set, but a read that
        # saw it clear says nothing about the next read (each later read is a fresh decision)
        ev = key(sv)
        prior = sum(1 for e in it.events if e.kind == "EV_ISSET" and e.data["ev"] == ev)
        if seen_set(it, ev):
            r = True
        else:
            r = it.decide_bool(f"is_set({ev})" if prior == 0 else f"is_set({ev})@{prior + 1}")
        it.emit("EV_ISSET", n, ev=ev, result=r, oid=getattr(sv, "oid", None))
        return Const(r)

    def h_wait(it, fn, sv, a, k, n):
        bounded = bool(a) or "timeout" in k
        ev = key(sv)
        e_ = it.emit("EV_WAIT", n, ev=ev, bounded=bounded, oid=getattr(sv, "oid", None))
        # an event created by this call (its own completion event) vs. a shared flag held by the state object
        own = isinstance(sv, Obj) and not (sv.label or "").startswith("state.")
        if seen_set(it, ev) and not own:
            # a shared flag that was seen set carries the stored error (the flag is only ever set with one)
            e_.data["outcome"] = "BackgroundThreadError"
            raise _Raise(it.make_exc(BTE_FQ, f"wait({ev})"), it.site(n))
        opts = ["released", "BackgroundThreadError"]
        if bounded and not seen_set(it, ev):
            opts.append("timeout")
        prior = sum(1 for x in it.events if x.kind == "EV_WAIT" and x.data["ev"] == ev) - 1
        c = it.decide(f"wait({ev}) outcome" if prior == 0 else f"wait({ev}) outcome@{prior + 1}", len(opts), opts)
        e_.data["outcome"] = opts[c]
        if c == 1:
            raise _Raise(it.make_exc(BTE_FQ, f"wait({ev})"), it.site(n))
        return Const(c == 0)

    def h_set(it, fn, sv, a, k, n):
        arg = a[0] if a else k.get("error", NONE)
        it.emit("EV_SET", n, ev=key(sv), error=arg.key(), oid=getattr(sv, "oid", None))
        return NONE

    return {ce.methods["is_set"].fq: h_is_set, ce.methods["wait"].fq: h_wait, ce.methods["set"].fq: h_set}


def make_real_state(it: Interp, prog: Program) -> Obj:
    """ExecutionState built by interpreting its own __init__ (queues, events, locks become keyed symbols)."""
    sc = prog.cls("state", "ExecutionState")
    init = sc.methods["__init__"]
    kwargs = {}
    for p in init.node.args.args[1:]:
        kwargs[p.arg] = Sym(f"init.{p.arg}", parse_annotation(prog, init.module, p.annotation))
    kwargs["batcher_config"] = NONE
    obj = Obj(sc, label="state")
    it.call_function(init, obj, [], kwargs, None, None, None)
    # the batcher limits stay symbolic so that every guard shows up in the path condition
    bc = prog.cls("state", "CheckpointBatcherConfig")
    obj.fields["_batcher_config"] = Sym("cfg", TypeRef(classes=(bc.fq,)))
    # give keyed names to the stdlib objects created in __init__
    for attr, v in list(obj.fields.items()):
        if isinstance(v, Sym) and v.parts and v.parts[0] == "EXTCALL":
            obj.fields[attr] = Sym(f"state.{attr}", v.typ, parts=v.parts)
    return obj


def create_checkpoint_traces(pm: ProtocolModel) -> list[Trace]:
    prog = pm.prog
    fn = pm.ckpt_fn
    hooks = completion_event_hooks(prog)

    def h_mark(it, f, sv, a, k, n):
        it.emit("MARK_ORPHANS", n, root=(a[0].key() if a else "?"))
        return NONE

    hooks[prog.func("state", "ExecutionState._mark_orphans").fq] = h_mark
    cfg = pm.make_config(faults=False, user_raises={}, extra_hooks=hooks)
    del cfg.hooks[fn.fq]  # interpret create_checkpoint itself

    def run(ch: Chooser) -> Trace:
        it = Interp(prog, ch, cfg)
        it.site_stack.append("<driver>")
        try:
            state = make_real_state(it, prog)
            it.events.clear()
            upd_cls = pm.update_cls
            mode = it.decide("operation_update", 2, ["update", "empty"])
            upd: V = Sym("update", TypeRef(classes=(upd_cls.fq,))) if mode == 0 else NONE
            sync = Const(it.decide("is_sync", 2, [True, False]) == 0)
            v = it.call_function(fn, state, [], {"operation_update": upd, "is_sync": sync}, None, None, None)
            return Trace(("create_checkpoint", ""), it.events, "return", v, pc=it.pc)
        except _Raise as r:
            return Trace(("create_checkpoint", ""), it.events, "raise", r.exc, r.origin, r.site, pc=it.pc)

    return enumerate_paths(run)



def failure_look_traces(pm: ProtocolModel) -> list[Trace]:
    """ExecutionState.raise_if_checkpointing_failed interpreted on its own (in the wrapper model it is one FAILCHECK event): the flag's is_set / wait are
    the modelled completion-event operations, so a path on which the flag is seen raised and nothing is raised is visible."""
    prog = pm.prog
    fn = prog.func("state", "ExecutionState.raise_if_checkpointing_failed")
    cfg = pm.make_config(faults=False, user_raises={}, extra_hooks=completion_event_hooks(prog))
    cfg.hooks.pop(fn.fq, None)

    def run(ch: Chooser) -> Trace:
        it = Interp(prog, ch, cfg)
        it.site_stack.append("<driver>")
        try:
            state = make_real_state(it, prog)
            it.events.clear()
            v = it.call_function(fn, state, [], {}, None, None, None)
            return Trace(("raise_if_checkpointing_failed", ""), it.events, "return", v, pc=it.pc)
        except _Raise as r:
            return Trace(("raise_if_checkpointing_failed", ""), it.events, "raise", r.exc, r.origin, r.site, pc=it.pc)

    return enumerate_paths(run)

# ---------------------------------------------------------------------------
# consumer model: _collect_checkpoint_batch and checkpoint_batches_forever
# ---------------------------------------------------------------------------
def _queue_hooks(it_items: dict, overflow_bound: int | None = None):
    """ext-method hooks modelling the two queues: get* returns a fresh keyed item or raises queue.Empty."""

    def which(recv):
        k = recv.key()
        return "overflow" if "overflow" in k else "main" if "checkpoint_queue" in k else None

    def h_get(it, recv, args, kwargs, node):
        q = which(recv)
        if q is None:
            return NotImplemented
        n = sum(1 for e in it.events if e.kind == "Q_GET" and e.data["queue"] == q and e.data.get("item")) + 1
        if q == "overflow" and overflow_bound is not None and n > overflow_bound:
            c = 1  # inductive invariant: at most `overflow_bound` parked updates at entry (checked by C05/R3.overflow-invariant)
        else:
            c = it.decide(f"{q}.get#{n}@{len(it.events)}", 2, ["item", "Empty"])
        if c == 1:
            it.emit("Q_GET", node, queue=q, item=None, blocking="timeout" in kwargs or bool(args))
            raise _Raise(Obj(None, builtin_cls="queue.Empty", label=f"Empty@{q}"), it.site(node))
        item = it_items["make"](it, q, n)
        it.emit("Q_GET", node, queue=q, item=item.key(), item_v=item, blocking="timeout" in kwargs or bool(args))
        return item

    def h_put(it, recv, args, kwargs, node):
        q = which(recv)
        if q is None:
            return NotImplemented
        it.emit("Q_PUT", node, queue=q, item=args[0].key() if args else None, item_v=args[0] if args else None,
                batch_len=it_items.get("batch_len", lambda: None)())
        return NONE

    def h_empty(it, recv, args, kwargs, node):
        q = which(recv)
        if q is None:
            return NotImplemented
        n = sum(1 for e in it.events if e.kind == "Q_EMPTY" and e.data["queue"] == q) + 1
        r = it.decide(f"{q}.empty()#{n}", 2, [False, True]) == 1
        it.emit("Q_EMPTY", node, queue=q, result=r)
        return Const(r)

    def h_noop(it, recv, args, kwargs, node):
        return NONE if which(recv) else NotImplemented

    return {"get": h_get, "get_nowait": h_get, "put": h_put, "put_nowait": h_put, "empty": h_empty, "task_done": h_noop}


def collect_batch_traces(pm: ProtocolModel, while_iters: int = 2, overflow_bound: int | None = 1) -> list[Trace]:
    prog = pm.prog
    fn = prog.func("state", "ExecutionState._collect_checkpoint_batch")
    size_fn = prog.func("state", "ExecutionState._calculate_operation_size")
    qop = prog.cls("state", "QueuedOperation")

    def make(it, q, n):
        o = Obj(qop, label=f"{q[:2]}#{n}")
        o.fields.update(operation_update=Sym(f"{q[:2]}#{n}.update"), completion_event=Sym(f"{q[:2]}#{n}.event"))
        return o

    def h_size(it, f, sv, a, k, n):
        item = a[0] if a else k.get("queued_op")
        it.emit("SIZE", n, item=item.key())
        return Sym(f"size({item.key()})", TypeRef(prim="int"))

    cfg = pm.make_config(faults=False, user_raises={}, extra_hooks={size_fn.fq: h_size})
    del cfg.hooks[pm.ckpt_fn.fq]
    cfg.while_iters = while_iters
    cfg.max_steps = 200000

    def run(ch: Chooser) -> Trace:
        it = Interp(prog, ch, cfg)
        it.site_stack.append("<driver>")
        it.cfg = Config(**{**cfg.__dict__})
        try:
            state = make_real_state(it, prog)
            it.events.clear()
            it.cfg.ext_method_hooks = _queue_hooks({"make": make}, overflow_bound)
            # non-degenerate configuration: at least one operation per batch
            it.memo["0 < cfg.max_batch_operations"] = 0
            v = it.call_function(fn, state, [], {}, None, None, None)
            return Trace(("collect", ""), it.events, "return", v, pc=it.pc)
        except _Raise as r:
            return Trace(("collect", ""), it.events, "raise", r.exc, r.origin, r.site, pc=it.pc)

    return enumerate_paths(run, max_paths=400000)


def consumer_traces(pm: ProtocolModel, while_iters: int = 2) -> list[Trace]:
    """checkpoint_batches_forever with _collect_checkpoint_batch summarised (one sync + one async item per batch),
    the API call forked into success / failure, and queue drains modelled."""
    prog = pm.prog
    fn = prog.func("state", "ExecutionState.checkpoint_batches_forever")
    col = prog.func("state", "ExecutionState._collect_checkpoint_batch")
    qop = prog.cls("state", "QueuedOperation")
    ce = prog.cls("threading", "CompletionEvent")

    def new_item(it, label, sync=True, empty=False):
        o = Obj(qop, label=label)
        ev: V = NONE
        if sync:
            ev = Obj(ce, label=f"{label}.event")
        upd: V = NONE if empty else Sym(f"{label}.update", TypeRef(classes=(pm.update_cls.fq,)))
        o.fields.update(operation_update=upd, completion_event=ev)
        return o

    def h_collect(it, f, sv, a, k, n):
        i = sum(1 for e in it.events if e.kind == "COLLECT") + 1
        if any(e.kind == "API" and e.data.get("outcome") == "fails" for e in it.events):
            # the consumer collects again after a failed call: that alone is the violation (C06 R1.consumer-stops, C05 R6.no-call-after-failure look for a
            # COLLECT / API after the failure and for a trace that does not return) - the path is cut here instead of being explored through further
            # iterations, which multiplied the paths of such a tree beyond the selftest's time limit
            it.emit("COLLECT", n, n=i, items=[])
            raise _Raise(it.make_exc("builtins.BaseException*", "model cut: the consumer went on after a failed call"), it.site(n))
        # (the refresh-only outcome is offered for the first collection only: "a call without updates, then any other call" is the history the token rule needs)
        c = it.decide(f"collect#{i}", 3, ["batch", "empty", "refresh-only"]) if i == 1 else it.decide(f"collect#{i}", 2, ["batch", "empty"])
        if c == 1:
            it.emit("COLLECT", n, n=i, items=[])
            return SeqVal("list", [])
        if c == 2:
            # a batch made of nothing but a token-refresh (empty) checkpoint - what the map/parallel resubmitter sends before it re-runs a branch: a real API
            # call without a single update, whose response still carries the next token (r9_C05: the token adopted only `if updates`)
            items = [new_item(it, f"b{i}.empty", empty=True)]
            it.emit("COLLECT", n, n=i, items=[x.key() for x in items], items_v=items)
            return SeqVal("list", items)
        # an empty (token-refresh) checkpoint, a fire-and-forget update and a synchronous update, in this order:
        # the list of updates sent is shorter than the batch, so index-aligned bookkeeping shows up
        items = [new_item(it, f"b{i}.empty", empty=True), new_item(it, f"b{i}.async", sync=False), new_item(it, f"b{i}.sync")]
        it.emit("COLLECT", n, n=i, items=[x.key() for x in items], items_v=items)
        return SeqVal("list", items)

    def make(it, q, n):
        # what waits in a queue is a synchronous caller's update or a fire-and-forget one (no completion event): the drains must cope with both (mutscan 4: the
        # `if item.completion_event` of a drain replaced by True - None.set() kills the failure handler half-way through, whoever is queued behind stays asleep)
        # (forked for the first item taken from each queue only: one fire-and-forget item per drain is what the rules need, and every further fork doubles
        # the paths of a consumer that keeps going - the selftest mutant c06-consumer-continues did not finish)
        sync = True if n > 1 else it.decide(f"{q}#{n}@{len(it.events)} kind", 2, ["sync", "fire-and-forget"]) == 0
        return new_item(it, f"{q[:2]}#{n}", sync=sync)

    def h_api(it, recv, args, kwargs, node):
        if "service_client" not in recv.key():
            return NotImplemented
        i = sum(1 for e in it.events if e.kind == "API") + 1
        ev = it.emit("API", node, n=i, token=kwargs.get("checkpoint_token", NONE).key(), updates=kwargs.get("updates", NONE).key(),
                     kwargs={k: v.key() for k, v in kwargs.items()})
        c = it.decide(f"API#{i} outcome", 2, ["ok", "fails"])
        ev.data["outcome"] = ["ok", "fails"][c]
        if c == 1:
            raise _Raise(it.make_exc("builtins.Exception*", f"API#{i}"), it.site(node))
        return Sym(f"output#{i}", TypeRef(classes=(prog.cls("lambda_service", "CheckpointOutput").fq,)))

    def h_fetch(it, f, sv, a, k, n):
        it.emit("FETCH", n, args=[x.key() for x in a])
        return NONE

    hooks = completion_event_hooks(prog)
    hooks[col.fq] = h_collect
    from .common import methods_writing_operations

    for mname in methods_writing_operations(prog):
        hooks[prog.cls("state", "ExecutionState").methods[mname].fq] = h_fetch
    cfg = pm.make_config(faults=False, user_raises={}, extra_hooks=hooks)
    del cfg.hooks[pm.ckpt_fn.fq]
    cfg.while_iters = while_iters
    cfg.max_steps = 200000

    def run(ch: Chooser) -> Trace:
        it = Interp(prog, ch, cfg)
        it.site_stack.append("<driver>")
        it.cfg = Config(**{**cfg.__dict__})
        try:
            state = make_real_state(it, prog)
            it.events.clear()
            qh = _queue_hooks({"make": make})
            qh["checkpoint"] = h_api
            it.cfg.ext_method_hooks = qh
            # Event.is_set of the stop flag: symbolic
            v = it.call_function(fn, state, [], {}, None, None, None)
            return Trace(("consumer", ""), it.events, "return", v, pc=it.pc)
        except _Raise as r:
            return Trace(("consumer", ""), it.events, "raise", r.exc, r.origin, r.site, pc=it.pc)

    return enumerate_paths(run, max_paths=400000)


# ---------------------------------------------------------------------------
# thread root: the branch done-callback
# ---------------------------------------------------------------------------
def done_callback_traces(pm: ProtocolModel):
    """ConcurrentExecutor._on_task_complete with future.result() enumerated over everything a branch can end with."""
    prog = pm.prog
    cex = prog.cls("concurrency.executor", "ConcurrentExecutor")
    fn = cex.methods.get("_on_task_complete")
    if fn is None:
        raise AnalysisError("ConcurrentExecutor._on_task_complete not found")
    outcomes = ["return", "builtins.Exception*", TIMED_SUSPEND_FQ, SUSPEND_FQ, ORPHAN_FQ, BTE_FQ]
    counters = prog.cls("concurrency.models", "ExecutionCounters")

    def h_result(it, recv, args, kwargs, node):
        if not (isinstance(recv, Sym) and recv.k == "future"):
            return NotImplemented
        c = it.decide("future.result() outcome", len(outcomes), [short(o) for o in outcomes])
        it.emit("RESULT", node, outcome=short(outcomes[c]))
        if c == 0:
            return Sym("branch_result")
        raise _Raise(it.make_exc(outcomes[c], "branch"), it.site(node))

    def h_cancelled(it, recv, args, kwargs, node):
        if not (isinstance(recv, Sym) and recv.k == "future"):
            return NotImplemented
        r = it.decide("future.cancelled()", 2, [False, True]) == 1
        return Const(r)

    def h_set(it, recv, args, kwargs, node):
        if "_completion_event" in recv.key():
            it.emit("COMPLETION_SET", node)
            return NONE
        return NotImplemented

    def h_should_complete(it, f, sv, a, k, n):
        return Const(it.decide("counters.should_complete()", 2, [True, False]) == 0)

    def h_should_suspend(it, f, sv, a, k, n):
        r = it.decide("should_execution_suspend()", 2, [True, False]) == 0
        res = Obj(prog.cls("concurrency.models", "SuspendResult"))
        res.fields.update(should_suspend=Const(r), exception=Sym("suspend_exc"))
        return res

    hooks = {counters.methods["should_complete"].fq: h_should_complete,
             cex.methods["should_execution_suspend"].fq: h_should_suspend}
    ews_cls = prog.cls("concurrency.models", "ExecutableWithState")
    ts_cls = prog.cls("concurrency.executor", "TimerScheduler")

    def mk_rec(kind):
        def h(it, f, sv, a, k, n):
            it.emit(kind, n, method=f.name, args=[x.key() for x in a], recv=sv.key() if sv is not None else "?")
            return NONE
        return h

    for mname in ("complete", "fail", "suspend", "suspend_with_timeout", "reset_to_pending", "run"):
        if mname in ews_cls.methods:
            hooks[ews_cls.methods[mname].fq] = mk_rec("BRANCH")
    for mname in ("complete_task", "fail_task"):
        if mname in counters.methods:
            hooks[counters.methods[mname].fq] = mk_rec("COUNTER")
    if "schedule_resume" in ts_cls.methods:
        hooks[ts_cls.methods["schedule_resume"].fq] = mk_rec("SCHEDULE")

    def self_factory(it, state):
        o = Obj(cex, label="cexec")
        o.fields["counters"] = Sym("cexec.counters", TypeRef(classes=(counters.fq,)))
        o.fields["_completion_event"] = Sym("cexec._completion_event", TypeRef(prim="ext:threading.Event"))
        return o

    def kw(it, state):
        ews = prog.cls("concurrency.models", "ExecutableWithState")
        return {"exe_state": Sym("exe_state", TypeRef(classes=(ews.fq,))), "future": Sym("future", TypeRef(prim="ext:Future")),
                "scheduler": Sym("scheduler", TypeRef(classes=(prog.cls("concurrency.executor", "TimerScheduler").fq,)))}

    return fn, pm.run_function(fn, self_factory, kw, cell=("_on_task_complete", ""), extra_hooks=hooks,
                               ext_method_hooks={"result": h_result, "cancelled": h_cancelled, "set": h_set})


