"""E5 - writer/reader tables of the hand-written wire codecs (to_dict / from_dict pairs)."""

from __future__ import annotations

import ast
from dataclasses import dataclass, field

from .model import AnalysisError, ClassInfo, FuncInfo, Program


@dataclass
class WEntry:
    path: tuple[str, ...]  # wire key path
    value: ast.expr
    guards: list[tuple[ast.expr, bool]]  # (test, polarity)
    may_be_empty_dict: bool = False

    @property
    def value_txt(self) -> str:
        return ast.unparse(self.value)

    def guard_kind(self, root: str) -> str:
        """always | truthy | notnone | other, looking only at guards that mention the value's root attribute."""
        kinds = []
        for test, pol in self.guards:
            txt = ast.unparse(test)
            if root not in txt:
                continue
            if isinstance(test, ast.Compare) and len(test.ops) == 1 and isinstance(test.ops[0], ast.IsNot) and pol:
                kinds.append("notnone")
            elif pol and isinstance(test, (ast.Attribute, ast.Name)):
                kinds.append("truthy")
            else:
                kinds.append("other")
        if not kinds:
            return "always"
        return kinds[-1]


def _const_key(node) -> str | None:
    if isinstance(node, ast.Constant) and isinstance(node.value, str):
        return node.value
    return None


class _Writer:
    def __init__(self, fn: FuncInfo):
        self.fn = fn
        self.vars: dict[str, list[WEntry]] = {}  # local dict var -> entries relative to it
        self.returned: list[WEntry] | None = None
        self.delegates: list[str] = []  # e.g. to_json_dict starts from self.to_dict()

    def dict_entries(self, d: ast.Dict, guards) -> list[WEntry]:
        out = []
        for k, v in zip(d.keys, d.values):
            key = _const_key(k) if k is not None else None
            if key is None:
                raise AnalysisError(f"non-literal key in dict built by {self.fn.fq}")
            out.extend(self.value_entries((key,), v, guards))
        return out

    def value_entries(self, path, v, guards) -> list[WEntry]:
        if isinstance(v, ast.Dict):
            inner = self.dict_entries(v, guards)
            if not inner:
                return [WEntry(path, v, list(guards), may_be_empty_dict=True)]
            return [WEntry(path + e.path, e.value, e.guards, e.may_be_empty_dict) for e in inner]
        if isinstance(v, ast.IfExp):
            a = self.value_entries(path, v.body, guards + [(v.test, True)])
            b = self.value_entries(path, v.orelse, guards + [(v.test, False)])
            return a + b
        if isinstance(v, ast.Name) and v.id in self.vars:
            inner = self.vars[v.id]
            unguarded = [e for e in inner if len(e.guards) <= len(guards)]
            out = [WEntry(path + e.path, e.value, list(guards) + e.guards, e.may_be_empty_dict) for e in inner]
            # a dict variable whose every entry is conditional can end up empty
            if not inner or all(e.guards for e in inner):
                out.append(WEntry(path, ast.Dict(keys=[], values=[]), list(guards), may_be_empty_dict=True))
            return out
        return [WEntry(path, v, list(guards))]

    def filtered_copy(self, v):
        """{k: x for k, x in D.items() if <test on x>} over a local dict D: every entry of D gains the test (x := the entry's value) as a guard"""
        if not (isinstance(v, ast.DictComp) and len(v.generators) == 1):
            return None
        g = v.generators[0]
        it = g.iter
        if not (isinstance(it, ast.Call) and isinstance(it.func, ast.Attribute) and it.func.attr == "items" and isinstance(it.func.value, ast.Name)
                and it.func.value.id in self.vars and isinstance(g.target, ast.Tuple) and len(g.target.elts) == 2
                and all(isinstance(e, ast.Name) for e in g.target.elts)):
            return None
        kn, vn = g.target.elts[0].id, g.target.elts[1].id
        if not (isinstance(v.key, ast.Name) and v.key.id == kn and isinstance(v.value, ast.Name) and v.value.id == vn):
            return None
        out = []
        for e in self.vars[it.func.value.id]:
            extra = []
            for test in g.ifs:
                class Sub(ast.NodeTransformer):
                    def visit_Name(self, node, e=e):
                        return e.value if node.id == vn else node
                t2 = Sub().visit(ast.parse(ast.unparse(test), mode="eval").body)
                extra.append((t2, True))
            out.append(WEntry(e.path, e.value, list(e.guards) + extra, e.may_be_empty_dict))
        return out

    def run(self):
        self.block(self.fn.node.body, [])
        if self.returned is None:
            raise AnalysisError(f"{self.fn.fq}: no returned dictionary found")
        return self.returned

    @staticmethod
    def _always_returns(stmts) -> bool:
        return bool(stmts) and isinstance(stmts[-1], (ast.Return, ast.Raise))

    def _add_returned(self, entries):
        # several return statements: the writer's table is the union (each entry keeps the guards of its own path)
        self.returned = list(entries) if self.returned is None else self.returned + list(entries)

    def block(self, stmts, guards):
        guards = list(guards)
        for st in stmts:
            if isinstance(st, ast.Expr) and isinstance(st.value, ast.Constant):
                continue
            if isinstance(st, (ast.Assign, ast.AnnAssign)):
                tg = st.target if isinstance(st, ast.AnnAssign) else st.targets[0]
                val = st.value
                if val is None:
                    continue
                if isinstance(tg, ast.Name):
                    fc = self.filtered_copy(val)
                    if fc is not None:
                        self.vars[tg.id] = fc
                        continue
                    if isinstance(val, ast.Dict):
                        self.vars[tg.id] = [WEntry(e.path, e.value, e.guards[len(guards):], e.may_be_empty_dict) for e in self.dict_entries(val, guards)]
                    elif isinstance(val, ast.Call) and isinstance(val.func, ast.Attribute) and isinstance(val.func.value, ast.Name) \
                            and val.func.value.id == "self" and val.func.attr.startswith("to_"):
                        self.delegates.append(val.func.attr)
                        self.vars[tg.id] = []
                    continue
                if isinstance(tg, ast.Subscript):
                    # result["K"] = v   /  result["A"]["B"] = v
                    path = []
                    base = tg
                    while isinstance(base, ast.Subscript):
                        k = _const_key(base.slice)
                        if k is None:
                            raise AnalysisError(f"non-literal key store in {self.fn.fq}")
                        path.insert(0, k)
                        base = base.value
                    if isinstance(base, ast.Name) and base.id in self.vars:
                        for e in self.value_entries(tuple(path), val, guards):
                            self.vars[base.id].append(e)
                    continue
                continue
            if isinstance(st, ast.If):
                self.block(st.body, guards + [(st.test, True)])
                self.block(st.orelse, guards + [(st.test, False)])
                # early exit: what follows only runs when the test had the other outcome
                if self._always_returns(st.body) and not self._always_returns(st.orelse):
                    guards = guards + [(st.test, False)]
                elif self._always_returns(st.orelse) and not self._always_returns(st.body):
                    guards = guards + [(st.test, True)]
                continue
            if isinstance(st, ast.Return):
                if isinstance(st.value, ast.Dict):
                    ents = self.dict_entries(st.value, guards)
                    self._add_returned(ents)  # (`return {}` adds nothing; the entries of the other returns carry the negated guard)
                elif isinstance(st.value, ast.Name) and st.value.id in self.vars:
                    self._add_returned([WEntry(e.path, e.value, list(guards) + [g for g in e.guards if g not in guards], e.may_be_empty_dict) for e in self.vars[st.value.id]]
                                       if guards else self.vars[st.value.id])
                elif self.filtered_copy(st.value) is not None:
                    self._add_returned(self.filtered_copy(st.value))
                else:
                    raise AnalysisError(f"{self.fn.fq}: returns {ast.unparse(st.value) if st.value else None}")
                continue
            if isinstance(st, (ast.Pass,)):
                continue
            raise AnalysisError(f"{self.fn.fq}: unsupported statement {type(st).__name__} in a codec writer")


def writer_table(fn: FuncInfo) -> list[WEntry]:
    return _Writer(fn).run()


def self_root(expr: ast.expr) -> tuple[str, ...] | None:
    """('step_details','attempt') for self.step_details.attempt[.value / .to_dict() / ...]"""
    for n in ast.walk(expr):
        if isinstance(n, ast.Attribute):
            chain = []
            x = n
            while isinstance(x, ast.Attribute):
                chain.insert(0, x.attr)
                x = x.value
            if isinstance(x, ast.Name) and x.id == "self":
                return tuple(chain)
    return None


def all_self_roots(expr: ast.expr) -> set[tuple[str, ...]]:
    out = set()
    for n in ast.walk(expr):
        if isinstance(n, ast.Attribute):
            chain = []
            x = n
            while isinstance(x, ast.Attribute):
                chain.insert(0, x.attr)
                x = x.value
            if isinstance(x, ast.Name) and x.id == "self":
                out.add(tuple(chain))
    return out


# ---------------------------------------------------------------------------
@dataclass
class REntry:
    field: str
    key: str | None
    access: str  # subscript | get | get-default
    presence: str  # always | truthy | notnone
    conv: str | None  # text of the converting callable (Enum class / Model.from_dict)
    shadow: bool = False  # the variable handed to the constructor is re-bound by a walrus in the presence test
    expr_txt: str = ""


def _wire_access(expr, data_name: str):
    """first data.get("K"...) / data["K"] found in expr -> (key, access)"""
    for n in ast.walk(expr):
        if isinstance(n, ast.Call) and isinstance(n.func, ast.Attribute) and n.func.attr == "get" \
                and isinstance(n.func.value, ast.Name) and n.func.value.id == data_name and n.args:
            k = _const_key(n.args[0])
            if k:
                return k, ("get-default" if len(n.args) > 1 else "get")
        if isinstance(n, ast.Subscript) and isinstance(n.value, ast.Name) and n.value.id == data_name:
            k = _const_key(n.slice)
            if k:
                return k, "subscript"
    return None, ""


def _presence_of_test(test) -> str:
    if isinstance(test, ast.Compare) and len(test.ops) == 1 and isinstance(test.ops[0], ast.IsNot) \
            and isinstance(test.comparators[0], ast.Constant) and test.comparators[0].value is None:
        return "notnone"
    return "truthy"


def _converter(expr, data_name: str) -> str | None:
    for n in ast.walk(expr):
        if isinstance(n, ast.Call):
            f = ast.unparse(n.func)
            if f.startswith(data_name + "."):
                continue
            return f
    return None


def reader_table(prog: Program, fn: FuncInfo) -> dict[str, REntry]:
    a = fn.node.args.args
    data_name = a[1].arg if fn.kind == "classmethod" or (a and a[0].arg in ("cls", "self")) else a[0].arg
    defs: dict[str, list[tuple[ast.expr, ast.expr | None]]] = {}
    walrus_targets: dict[str, ast.expr] = {}

    def scan(stmts, guard):
        for st in stmts:
            if isinstance(st, (ast.Assign, ast.AnnAssign)):
                tg = st.target if isinstance(st, ast.AnnAssign) else st.targets[0]
                if isinstance(tg, ast.Name) and st.value is not None:
                    defs.setdefault(tg.id, []).append((st.value, guard))
            elif isinstance(st, ast.If):
                for n in ast.walk(st.test):
                    if isinstance(n, ast.NamedExpr):
                        walrus_targets[n.target.id] = n.value
                scan(st.body, st.test)
                scan(st.orelse, st.test)

    scan(fn.node.body, None)
    ret = None
    for st in ast.walk(fn.node):
        if isinstance(st, ast.Return) and isinstance(st.value, ast.Call) and isinstance(st.value.func, ast.Name):
            if st.value.func.id == "cls" or st.value.func.id == (fn.cls.name if fn.cls else ""):
                ret = st.value
    if ret is None:
        raise AnalysisError(f"{fn.fq}: no `return cls(...)` found")
    ci = fn.cls
    fields = [f.name for f in ci.all_fields()]
    binding: dict[str, ast.expr] = {}
    for i, arg in enumerate(ret.args):
        if i < len(fields):
            binding[fields[i]] = arg
    for kw in ret.keywords:
        if kw.arg:
            binding[kw.arg] = kw.value
    out: dict[str, REntry] = {}
    for fname, expr in binding.items():
        shadow = False
        presence = "always"
        src = expr
        if isinstance(expr, ast.Name) and expr.id in defs:
            ds = defs[expr.id]
            guarded = [(v, g) for v, g in ds if g is not None]
            if guarded:
                v, g = guarded[-1]
                presence = _presence_of_test(g)
                src = ast.Tuple(elts=[v, g], ctx=ast.Load())
                # resolve the walrus variable used inside the converting expression
                for n in ast.walk(g):
                    if isinstance(n, ast.NamedExpr):
                        if n.target.id == expr.id:
                            shadow = True
            else:
                src = ds[-1][0]
                if isinstance(src, ast.IfExp):  # error = X if data.get("Error") else None
                    presence = _presence_of_test(src.test)
        elif isinstance(expr, ast.IfExp):
            presence = _presence_of_test(expr.test)
            src = expr
        # follow one level of local variables (error_raw = data.get("Error"))
        key, access = _wire_access(src, data_name)
        if key is None:
            for n in ast.walk(src):
                if isinstance(n, ast.Name) and n.id in defs and n.id != data_name:
                    for v, _g in defs[n.id]:
                        key, access = _wire_access(v, data_name)
                        if key:
                            break
                if isinstance(n, ast.Name) and n.id in walrus_targets and key is None:
                    key, access = _wire_access(walrus_targets[n.id], data_name)
                if key:
                    break
        out[fname] = REntry(fname, key, access, presence, _converter(src, data_name), shadow, ast.unparse(expr))
    return out


def converted_paths(fn: FuncInfo, converter_attr: str) -> set[tuple[str, ...]]:
    """wire key paths whose value is passed through TimestampConverter.<converter_attr> in a *_json_dict function."""
    out = set()
    for st in ast.walk(fn.node):
        if isinstance(st, ast.Assign) and isinstance(st.targets[0], ast.Subscript) and isinstance(st.value, ast.Call) \
                and isinstance(st.value.func, ast.Attribute) and st.value.func.attr == converter_attr:
            path = []
            base = st.targets[0]
            while isinstance(base, ast.Subscript):
                k = _const_key(base.slice)
                path.insert(0, k or "?")
                base = base.value
            # resolve local aliases (step_details := data_copy.get("StepDetails"))
            if isinstance(base, ast.Name):
                for n in ast.walk(fn.node):
                    if isinstance(n, ast.NamedExpr) and n.target.id == base.id:
                        k, _ = _wire_access_any(n.value)
                        if k:
                            path.insert(0, k)
            out.add(tuple(path))
    return out


def _wire_access_any(expr):
    for n in ast.walk(expr):
        if isinstance(n, ast.Call) and isinstance(n.func, ast.Attribute) and n.func.attr == "get" and n.args:
            k = _const_key(n.args[0])
            if k:
                return k, "get"
    return None, ""


# ---------------------------------------------------------------------------------------------------------------------------
# readers must not mutate the wire dictionary they are given (a decoded event / history page is decoded again, compared, re-sent)
def input_mutations(fn: FuncInfo) -> list[tuple[int, str]]:
    """Alias depth analysis over one reader: every local is mapped to the depth down to which it is *fresh* with respect to the
    parameter (0 = the parameter itself, 1 = shallow copy, inf = deep copy / unrelated); a store, delete or mutator call reaching
    depth >= freshness mutates the caller's object."""
    a = fn.node.args.args
    params = [p.arg for p in a if p.arg not in ("cls", "self")]
    INF = 99
    fresh: dict[str, int] = {p: 0 for p in params}

    def depth_of(expr) -> int | None:
        """freshness of the object `expr` denotes, None if unrelated to the input"""
        if isinstance(expr, ast.NamedExpr):
            return depth_of(expr.value)
        if isinstance(expr, ast.Name):
            return fresh.get(expr.id)
        if isinstance(expr, ast.Subscript):
            d = depth_of(expr.value)
            return None if d is None else max(d - 1, 0) if d < INF else INF
        if isinstance(expr, ast.Call):
            f = expr.func
            if isinstance(f, ast.Attribute) and f.attr in ("get", "pop", "setdefault") and expr.args:
                d = depth_of(f.value)
                return None if d is None else max(d - 1, 0) if d < INF else INF
            if isinstance(f, ast.Attribute) and f.attr == "deepcopy" and expr.args:
                return INF if depth_of(expr.args[0]) is not None else None
            if (isinstance(f, ast.Attribute) and f.attr == "copy" and isinstance(f.value, ast.Name) and f.value.id == "copy" and expr.args):
                d = depth_of(expr.args[0])
                return None if d is None else (INF if d >= INF else d + 1)
            if isinstance(f, ast.Attribute) and f.attr == "copy" and not expr.args:
                d = depth_of(f.value)
                return None if d is None else (INF if d >= INF else d + 1)
            if isinstance(f, ast.Name) and f.id in ("dict", "list") and len(expr.args) == 1:
                d = depth_of(expr.args[0])
                return None if d is None else (INF if d >= INF else d + 1)
        if isinstance(expr, ast.Dict) and any(k is None for k in expr.keys):  # {**data, ...}
            ds = [depth_of(v) for k, v in zip(expr.keys, expr.values) if k is None]
            ds = [d for d in ds if d is not None]
            return None if not ds else min(INF if d >= INF else d + 1 for d in ds)
        if isinstance(expr, ast.BoolOp):
            ds = [depth_of(v) for v in expr.values]
            ds = [d for d in ds if d is not None]
            return min(ds) if ds else None
        if isinstance(expr, ast.IfExp):
            ds = [d for d in (depth_of(expr.body), depth_of(expr.orelse)) if d is not None]
            return min(ds) if ds else None
        return None

    out: list[tuple[int, str]] = []
    # two passes so that walrus-bound names inside tests are known before the stores that follow them
    for _ in range(2):
        for n in ast.walk(fn.node):
            if isinstance(n, ast.NamedExpr) and isinstance(n.target, ast.Name):
                d = depth_of(n.value)
                if d is not None:
                    fresh[n.target.id] = min(fresh.get(n.target.id, INF), d)
            elif isinstance(n, (ast.Assign, ast.AnnAssign)) and n.value is not None:
                tg = n.targets if isinstance(n, ast.Assign) else [n.target]
                for t in tg:
                    if isinstance(t, ast.Name):
                        d = depth_of(n.value)
                        if d is not None:
                            fresh[t.id] = min(fresh.get(t.id, INF), d)
            elif isinstance(n, ast.For) and isinstance(n.target, ast.Name):
                d = depth_of(n.iter)
                if d is not None:
                    fresh[n.target.id] = min(fresh.get(n.target.id, INF), max(d - 1, 0) if d < INF else INF)
    for n in ast.walk(fn.node):
        tgts = []
        if isinstance(n, (ast.Assign, ast.AugAssign, ast.AnnAssign)):
            tgts = [t for t in (n.targets if isinstance(n, ast.Assign) else [n.target]) if isinstance(t, ast.Subscript)]
        elif isinstance(n, ast.Delete):
            tgts = [t for t in n.targets if isinstance(t, ast.Subscript)]
        for t in tgts:
            d = depth_of(t.value)
            if d is not None and d < 1:
                out.append((n.lineno, f"`{ast.unparse(t)} = ...` writes into the caller's dictionary (`{ast.unparse(t.value)}` is not a copy at this depth)"))
        if isinstance(n, ast.Call) and isinstance(n.func, ast.Attribute) and n.func.attr in ("update", "pop", "popitem", "setdefault", "clear", "append", "extend", "sort"):
            d = depth_of(n.func.value)
            if d is not None and d < 1:
                out.append((n.lineno, f"`{ast.unparse(n)[:70]}` mutates the caller's dictionary"))
    return sorted(set(out))
