"""E1 - program model of the SDK package, built from source with `ast` only.

Nothing in /repo is ever imported or executed.  The model gives:
  * modules (imports resolved to fully qualified names, top-level functions,
    classes, module constants);
  * classes (resolved bases, linearised MRO, methods, dataclass fields with
    annotation/default, Enum members with values);
  * an exception/class lattice that also knows the builtin hierarchy.
"""

from __future__ import annotations

import ast
import builtins
import hashlib
import os
from dataclasses import dataclass, field
from pathlib import Path

PKG = "aws_durable_execution_sdk_python"
MIN_MODULES = 25


class AnalysisError(Exception):
    """The analysis cannot proceed soundly (anchor vanished, unsupported construct...)."""


def repo_root() -> Path:
    return Path(os.environ.get("VERIF_REPO", "/repo"))


def src_root() -> Path:
    return repo_root() / "src" / PKG


@dataclass
class FuncInfo:
    name: str
    qualname: str  # module-relative: Class.method or func or outer.<locals>.inner
    module: "Module"
    node: ast.FunctionDef | ast.AsyncFunctionDef | ast.Lambda
    cls: "ClassInfo | None" = None
    kind: str = "function"  # function | method | staticmethod | classmethod | property
    parent: "FuncInfo | None" = None  # enclosing function for nested defs

    @property
    def fq(self) -> str:
        return f"{self.module.name}:{self.qualname}"

    @property
    def lineno(self) -> int:
        return self.node.lineno

    def loc(self) -> str:
        return f"{self.module.relpath}:{self.qualname}:{self.node.lineno}"

    def __hash__(self):
        return hash(self.fq)

    def __eq__(self, other):
        return isinstance(other, FuncInfo) and other.fq == self.fq


@dataclass
class FieldInfo:
    name: str
    annotation: ast.expr | None
    default: ast.expr | None  # None = required
    default_factory: ast.expr | None = None


@dataclass
class ClassInfo:
    name: str
    module: "Module"
    node: ast.ClassDef
    base_exprs: list[ast.expr]
    bases: list[str] = field(default_factory=list)  # fq names or "builtins.X" or "?name"
    methods: dict[str, FuncInfo] = field(default_factory=dict)
    fields: list[FieldInfo] = field(default_factory=list)  # own annotated fields
    class_attrs: dict[str, ast.expr] = field(default_factory=dict)
    is_dataclass: bool = False
    dataclass_frozen: bool = False
    is_enum: bool = False
    enum_members: dict[str, object] = field(default_factory=dict)
    program: "Program | None" = None

    @property
    def fq(self) -> str:
        return f"{self.module.name}.{self.name}"

    def loc(self) -> str:
        return f"{self.module.relpath}:{self.name}:{self.node.lineno}"

    def __hash__(self):
        return hash(self.fq)

    def __eq__(self, other):
        return isinstance(other, ClassInfo) and other.fq == self.fq

    # --- hierarchy -----------------------------------------------------
    def mro(self) -> list["ClassInfo"]:
        out: list[ClassInfo] = []
        seen = set()

        def visit(c: ClassInfo):
            if c.fq in seen:
                return
            seen.add(c.fq)
            out.append(c)
            for b in c.bases:
                bc = self.program.classes.get(b) if self.program else None
                if bc is not None:
                    visit(bc)

        visit(self)
        return out

    def all_base_names(self) -> set[str]:
        """All ancestors incl. self, as fq names; builtin ancestors expanded."""
        names: set[str] = set()
        for c in self.mro():
            names.add(c.fq)
            for b in c.bases:
                names.add(b)
                if b.startswith("builtins."):
                    obj = getattr(builtins, b.split(".", 1)[1], None)
                    if isinstance(obj, type):
                        for anc in obj.__mro__:
                            names.add(f"builtins.{anc.__name__}")
        return names

    def is_subclass_of(self, other_fq: str) -> bool:
        return other_fq in self.all_base_names()

    def find_method(self, name: str) -> FuncInfo | None:
        for c in self.mro():
            if name in c.methods:
                return c.methods[name]
        return None

    def all_fields(self) -> list[FieldInfo]:
        """Dataclass fields in definition order, base classes first."""
        out: dict[str, FieldInfo] = {}
        for c in reversed(self.mro()):
            if c.is_dataclass:
                for f in c.fields:
                    out[f.name] = f
        return list(out.values())

    def find_class_attr(self, name: str):
        for c in self.mro():
            if name in c.class_attrs:
                return c, c.class_attrs[name]
        return None


@dataclass
class Module:
    name: str  # fq module name
    path: Path
    relpath: str
    src: str
    tree: ast.Module
    imports: dict[str, str] = field(default_factory=dict)  # local name -> fq target
    functions: dict[str, FuncInfo] = field(default_factory=dict)
    classes: dict[str, ClassInfo] = field(default_factory=dict)
    globals: dict[str, ast.expr] = field(default_factory=dict)

    def short(self) -> str:
        return self.name[len(PKG) + 1 :] if self.name.startswith(PKG + ".") else self.name


class Program:
    def __init__(self, root: Path | None = None):
        self.root = root or src_root()
        self.modules: dict[str, Module] = {}
        self.classes: dict[str, ClassInfo] = {}
        self.functions: dict[str, FuncInfo] = {}  # fq -> FuncInfo (all incl. nested)
        self._load()

    # ------------------------------------------------------------------
    def _load(self):
        if not self.root.is_dir():
            raise AnalysisError(f"source root {self.root} missing")
        files = sorted(self.root.rglob("*.py"))
        for p in files:
            rel = p.relative_to(self.root)
            parts = list(rel.with_suffix("").parts)
            if parts[-1] == "__init__":
                parts = parts[:-1]
            name = ".".join([PKG, *parts])
            src = p.read_text(encoding="utf-8")
            try:
                tree = ast.parse(src, filename=str(p))
            except SyntaxError as e:  # pragma: no cover
                raise AnalysisError(f"syntax error in {p}: {e}") from e
            relpath = str(Path("src") / PKG / rel)
            self.modules[name] = Module(name, p, relpath, src, tree)
        if len(self.modules) < MIN_MODULES:
            raise AnalysisError(
                f"only {len(self.modules)} modules parsed under {self.root} (< {MIN_MODULES})"
            )
        for m in self.modules.values():
            self._index_module(m)
        for c in self.classes.values():
            c.program = self
            c.bases = [self._resolve_base(c.module, b) for b in c.base_exprs]
        for c in self.classes.values():
            self._finish_class(c)

    def digest(self) -> str:
        h = hashlib.sha256()
        for name in sorted(self.modules):
            h.update(name.encode())
            h.update(self.modules[name].src.encode())
        return h.hexdigest()[:16]

    def module(self, short: str) -> Module:
        fq = f"{PKG}.{short}" if short else PKG
        if fq not in self.modules:
            raise AnalysisError(f"anchor module {fq} not found")
        return self.modules[fq]

    def cls(self, short_mod: str, name: str) -> ClassInfo:
        m = self.module(short_mod)
        if name not in m.classes:
            raise AnalysisError(f"anchor class {short_mod}.{name} not found")
        return m.classes[name]

    def func(self, short_mod: str, qualname: str) -> FuncInfo:
        m = self.module(short_mod)
        fq = f"{m.name}:{qualname}"
        if fq not in self.functions:
            raise AnalysisError(f"anchor function {short_mod}:{qualname} not found")
        return self.functions[fq]

    def find_class_by_name(self, name: str) -> list[ClassInfo]:
        return [c for c in self.classes.values() if c.name == name]

    # ------------------------------------------------------------------
    def _index_module(self, m: Module):
        def handle_import(node):
            if isinstance(node, ast.Import):
                for a in node.names:
                    m.imports[a.asname or a.name.split(".")[0]] = (
                        a.name if a.asname else a.name.split(".")[0]
                    )
            elif isinstance(node, ast.ImportFrom):
                base = node.module or ""
                if node.level:
                    pkg_parts = m.name.split(".")
                    # module itself counts unless it's a package __init__
                    if m.path.name != "__init__.py":
                        pkg_parts = pkg_parts[:-1]
                    pkg_parts = pkg_parts[: len(pkg_parts) - (node.level - 1)]
                    base = ".".join([*pkg_parts, base]) if base else ".".join(pkg_parts)
                for a in node.names:
                    m.imports[a.asname or a.name] = f"{base}.{a.name}"

        def walk_body(body):
            for node in body:
                if isinstance(node, (ast.Import, ast.ImportFrom)):
                    handle_import(node)
                elif isinstance(node, ast.If):
                    # TYPE_CHECKING blocks and version guards: index both arms
                    walk_body(node.body)
                    walk_body(node.orelse)
                elif isinstance(node, ast.Try):
                    walk_body(node.body)
                    for h in node.handlers:
                        walk_body(h.body)
                elif isinstance(node, (ast.FunctionDef, ast.AsyncFunctionDef)):
                    fi = FuncInfo(node.name, node.name, m, node)
                    m.functions[node.name] = fi
                    self._register_func(fi)
                elif isinstance(node, ast.ClassDef):
                    self._index_class(m, node)
                elif isinstance(node, ast.Assign):
                    for t in node.targets:
                        if isinstance(t, ast.Name):
                            m.globals[t.id] = node.value
                elif isinstance(node, ast.AnnAssign):
                    if isinstance(node.target, ast.Name) and node.value is not None:
                        m.globals[node.target.id] = node.value

        walk_body(m.tree.body)

    def _register_func(self, fi: FuncInfo):
        self.functions[fi.fq] = fi
        # nested defs / lambdas
        for sub in _direct_nested_funcs(fi.node):
            if isinstance(sub, ast.Lambda):
                name = f"<lambda@{sub.lineno}>"
            else:
                name = sub.name
            nfi = FuncInfo(
                name, f"{fi.qualname}.<locals>.{name}", fi.module, sub, cls=None, parent=fi
            )
            self._register_func(nfi)

    def _index_class(self, m: Module, node: ast.ClassDef):
        ci = ClassInfo(node.name, m, node, list(node.bases))
        for dec in node.decorator_list:
            d = dec.func if isinstance(dec, ast.Call) else dec
            dn = d.attr if isinstance(d, ast.Attribute) else getattr(d, "id", None)
            if dn == "dataclass":
                ci.is_dataclass = True
                if isinstance(dec, ast.Call):
                    for kw in dec.keywords:
                        if kw.arg == "frozen" and isinstance(kw.value, ast.Constant):
                            ci.dataclass_frozen = bool(kw.value.value)
        for st in node.body:
            if isinstance(st, (ast.FunctionDef, ast.AsyncFunctionDef)):
                kind = "method"
                for dec in st.decorator_list:
                    dn = getattr(dec, "id", None) or getattr(dec, "attr", None)
                    if dn in ("staticmethod", "classmethod", "property"):
                        kind = dn
                    if isinstance(dec, ast.Attribute) and dec.attr == "setter":
                        kind = "setter"
                if kind == "setter":
                    continue
                fi = FuncInfo(st.name, f"{node.name}.{st.name}", m, st, cls=ci, kind=kind)
                ci.methods[st.name] = fi
                self._register_func(fi)
            elif isinstance(st, ast.AnnAssign) and isinstance(st.target, ast.Name):
                default = st.value
                factory = None
                if (
                    isinstance(default, ast.Call)
                    and getattr(default.func, "id", getattr(default.func, "attr", None)) == "field"
                ):
                    d2 = None
                    for kw in default.keywords:
                        if kw.arg == "default":
                            d2 = kw.value
                        elif kw.arg == "default_factory":
                            factory = kw.value
                    default = d2
                ann = st.annotation
                is_classvar = "ClassVar" in ast.dump(ann)
                if not is_classvar:
                    ci.fields.append(FieldInfo(st.target.id, ann, default, factory))
                if st.value is not None:
                    ci.class_attrs[st.target.id] = st.value
            elif isinstance(st, ast.Assign):
                for t in st.targets:
                    if isinstance(t, ast.Name):
                        ci.class_attrs[t.id] = st.value
        m.classes[node.name] = ci
        self.classes[ci.fq] = ci

    def _resolve_base(self, m: Module, expr: ast.expr) -> str:
        if isinstance(expr, ast.Subscript):  # Generic[T], OperationExecutor[T]
            expr = expr.value
        fq = self.resolve_name_expr(m, expr)
        return fq or f"?{ast.unparse(expr)}"

    def resolve_name_expr(self, m: Module, expr: ast.expr) -> str | None:
        """Resolve a Name / dotted Attribute in module scope to an fq name."""
        if isinstance(expr, ast.Name):
            n = expr.id
            if n in m.classes:
                return m.classes[n].fq
            if n in m.functions:
                return f"{m.name}.{n}"
            if n in m.imports:
                return self._canon(m.imports[n])
            if n in m.globals:
                return f"{m.name}.{n}"
            if hasattr(builtins, n):
                return f"builtins.{n}"
            return None
        if isinstance(expr, ast.Attribute):
            base = self.resolve_name_expr(m, expr.value)
            if base is None:
                return None
            return self._canon(f"{base}.{expr.attr}")
        return None

    def _canon(self, fq: str) -> str:
        """Follow re-exports inside the package (from .x import Y in __init__)."""
        seen = set()
        while fq not in self.classes and fq not in seen:
            seen.add(fq)
            mod, _, name = fq.rpartition(".")
            mm = self.modules.get(mod)
            if mm is None:
                break
            if name in mm.classes or name in mm.functions or name in mm.globals:
                break
            if name in mm.imports:
                fq = mm.imports[name]
            else:
                break
        return fq

    def _finish_class(self, c: ClassInfo):
        names = c.all_base_names()
        if "enum.Enum" in names or "enum.StrEnum" in names or "enum.IntEnum" in names:
            c.is_enum = True
            for st in c.node.body:
                if isinstance(st, ast.Assign) and len(st.targets) == 1:
                    t = st.targets[0]
                    if isinstance(t, ast.Name) and not t.id.startswith("_"):
                        try:
                            c.enum_members[t.id] = ast.literal_eval(st.value)
                        except Exception:  # noqa: BLE001
                            c.enum_members[t.id] = ast.unparse(st.value)

    # ------------------------------------------------------------------
    def is_subclass(self, a_fq: str, b_fq: str) -> bool:
        """a ⊆ b over SDK classes and builtins."""
        if a_fq == b_fq:
            return True
        if a_fq in self.classes:
            return self.classes[a_fq].is_subclass_of(b_fq)
        if a_fq.startswith("builtins.") and b_fq.startswith("builtins."):
            a = getattr(builtins, a_fq[9:], None)
            b = getattr(builtins, b_fq[9:], None)
            if isinstance(a, type) and isinstance(b, type):
                return issubclass(a, b)
        return False

    def exception_classes(self) -> list[ClassInfo]:
        return [c for c in self.classes.values() if c.is_subclass_of("builtins.BaseException")]


def _direct_nested_funcs(fn_node):
    """Function/lambda nodes nested directly in fn_node (not inside deeper defs)."""
    out = []

    def visit(node):
        for child in ast.iter_child_nodes(node):
            if isinstance(child, (ast.FunctionDef, ast.AsyncFunctionDef, ast.Lambda)):
                out.append(child)
            elif isinstance(child, ast.ClassDef):
                continue
            else:
                visit(child)

    if isinstance(fn_node, ast.Lambda):
        visit(fn_node.body)
    else:
        for st in fn_node.body:
            if isinstance(st, (ast.FunctionDef, ast.AsyncFunctionDef, ast.Lambda)):
                out.append(st)
            else:
                visit(st)
        for d in fn_node.args.defaults + fn_node.args.kw_defaults:
            if d is not None:
                visit(d)
    return out


def norm(node: ast.AST) -> str:
    """Normalised source text of a node (position-free)."""
    return ast.unparse(node)


_PROGRAM_CACHE: dict[str, Program] = {}


def load_program() -> Program:
    key = str(src_root())
    if key not in _PROGRAM_CACHE:
        _PROGRAM_CACHE[key] = Program()
    return _PROGRAM_CACHE[key]
