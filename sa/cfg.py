"""E2 - statement-level control-flow graphs with dominators, for the loop-heavy code
(state.py consumer loop, concurrency/executor.py, execution.py wrapper).

Nodes are statements; a compound statement is represented by its *header* (the
expressions evaluated when control reaches it).  Exception edges are
conservative: inside a `try` every node (and the try entry) may jump to every
handler and to the `finally` block, so "X dominates Y" is only reported when no
exceptional shortcut around X exists.
"""

from __future__ import annotations

import ast
from dataclasses import dataclass, field

from .model import AnalysisError, FuncInfo


@dataclass
class Node:
    idx: int
    kind: str  # entry|exit|raise_exit|stmt|header|handler|join
    stmt: ast.AST | None = None
    label: str = ""

    @property
    def lineno(self):
        return getattr(self.stmt, "lineno", 0)


class CFG:
    def __init__(self, fn: FuncInfo):
        self.fn = fn
        self.nodes: list[Node] = []
        self.succ: dict[int, set[int]] = {}
        self.pred: dict[int, set[int]] = {}
        self.exc_edges: set[tuple[int, int]] = set()
        self.entry = self._new("entry").idx
        self.exit = self._new("exit").idx
        self.raise_exit = self._new("raise_exit").idx
        self._loop_stack: list[tuple[int, int]] = []  # (continue target, break target)
        self._try_stack: list[dict] = []
        body = fn.node.body if not isinstance(fn.node, ast.Lambda) else [ast.Expr(fn.node.body)]
        ends = self._block(body, {self.entry})
        for e in ends:
            self._edge(e, self.exit)
        self._dom = None
        self._pdom = None

    # ------------------------------------------------------------------ build
    def _new(self, kind, stmt=None, label="") -> Node:
        n = Node(len(self.nodes), kind, stmt, label)
        self.nodes.append(n)
        self.succ[n.idx] = set()
        self.pred[n.idx] = set()
        # every node created inside a try body may raise into its handlers
        for t in self._try_stack if hasattr(self, "_try_stack") else []:
            if t["phase"] == "body":
                t["body_nodes"].append(n.idx)
        return n

    def _edge(self, a: int, b: int, exc=False):
        self.succ[a].add(b)
        self.pred[b].add(a)
        if exc:
            self.exc_edges.add((a, b))

    def _block(self, stmts, preds: set[int]) -> set[int]:
        cur = set(preds)
        for st in stmts:
            if not cur:
                break  # unreachable code
            cur = self._stmt(st, cur)
        return cur

    def _link(self, preds, n: int):
        for p in preds:
            self._edge(p, n)

    def _raise_targets(self) -> list[int]:
        """Where does an exception raised here go? innermost try's handlers/finally, else raise_exit."""
        for t in reversed(self._try_stack):
            if t["phase"] == "body":
                tg = list(t["handler_entries"])
                if t["finally_entry"] is not None:
                    tg.append(t["finally_entry"])
                if not t["catch_all"] and t["finally_entry"] is None:
                    tg.extend(self._outer_raise_targets(t))
                return tg
            if t["phase"] in ("handler", "else"):
                if t["finally_entry"] is not None:
                    return [t["finally_entry"]]
                continue
        return [self.raise_exit]

    def _outer_raise_targets(self, t) -> list[int]:
        i = self._try_stack.index(t)
        saved = self._try_stack
        self._try_stack = saved[:i]
        try:
            return self._raise_targets()
        finally:
            self._try_stack = saved

    def _stmt(self, st, preds: set[int]) -> set[int]:
        if isinstance(st, (ast.FunctionDef, ast.AsyncFunctionDef, ast.ClassDef)):
            n = self._new("stmt", st, f"def {st.name}")
            self._link(preds, n.idx)
            return {n.idx}
        if isinstance(st, ast.If):
            h = self._new("header", st, "if")
            self._link(preds, h.idx)
            a = self._block(st.body, {h.idx})
            b = self._block(st.orelse, {h.idx}) if st.orelse else {h.idx}
            return a | b
        if isinstance(st, ast.While):
            h = self._new("header", st, "while")
            self._link(preds, h.idx)
            after = self._new("join", st, "while-exit")
            self._loop_stack.append((h.idx, after.idx))
            body_end = self._block(st.body, {h.idx})
            self._loop_stack.pop()
            self._link(body_end, h.idx)
            infinite = isinstance(st.test, ast.Constant) and st.test.value is True
            if not infinite:
                oe = self._block(st.orelse, {h.idx}) if st.orelse else {h.idx}
                self._link(oe, after.idx)
            return {after.idx} if self.pred[after.idx] else set()
        if isinstance(st, (ast.For, ast.AsyncFor)):
            h = self._new("header", st, "for")
            self._link(preds, h.idx)
            after = self._new("join", st, "for-exit")
            self._loop_stack.append((h.idx, after.idx))
            body_end = self._block(st.body, {h.idx})
            self._loop_stack.pop()
            self._link(body_end, h.idx)
            oe = self._block(st.orelse, {h.idx}) if st.orelse else {h.idx}
            self._link(oe, after.idx)
            return {after.idx}
        if isinstance(st, (ast.With, ast.AsyncWith)):
            h = self._new("header", st, "with")
            self._link(preds, h.idx)
            return self._block(st.body, {h.idx})
        if isinstance(st, ast.Try) or st.__class__.__name__ == "TryStar":
            return self._try(st, preds)
        if isinstance(st, ast.Match):
            h = self._new("header", st, "match")
            self._link(preds, h.idx)
            outs: set[int] = set()
            wildcard = False
            for case in st.cases:
                c = self._new("header", case, "case")
                self._edge(h.idx, c.idx)
                outs |= self._block(case.body, {c.idx})
                p = case.pattern
                if isinstance(p, ast.MatchAs) and p.pattern is None and case.guard is None:
                    wildcard = True
            if not wildcard:
                outs.add(h.idx)
            return outs
        if isinstance(st, ast.Return):
            n = self._new("stmt", st, "return")
            self._link(preds, n.idx)
            fin = self._innermost_finally()
            if fin is not None:
                self._edge(n.idx, fin)
                self._pending_return_via_finally = True
            else:
                self._edge(n.idx, self.exit)
            return set()
        if isinstance(st, ast.Raise):
            n = self._new("stmt", st, "raise")
            self._link(preds, n.idx)
            for t in self._raise_targets():
                self._edge(n.idx, t, exc=True)
            return set()
        if isinstance(st, ast.Break):
            n = self._new("stmt", st, "break")
            self._link(preds, n.idx)
            if not self._loop_stack:
                raise AnalysisError("break outside loop")
            self._edge(n.idx, self._loop_stack[-1][1])
            return set()
        if isinstance(st, ast.Continue):
            n = self._new("stmt", st, "continue")
            self._link(preds, n.idx)
            self._edge(n.idx, self._loop_stack[-1][0])
            return set()
        if isinstance(st, (ast.Expr, ast.Assign, ast.AnnAssign, ast.AugAssign, ast.Pass, ast.Assert, ast.Delete,
                           ast.Import, ast.ImportFrom, ast.Global, ast.Nonlocal)):
            n = self._new("stmt", st, type(st).__name__)
            self._link(preds, n.idx)
            return {n.idx}
        raise AnalysisError(f"CFG: unsupported statement {type(st).__name__} in {self.fn.fq}")

    def _innermost_finally(self):
        for t in reversed(self._try_stack):
            if t["finally_entry"] is not None and t["phase"] != "finally":
                return t["finally_entry"]
        return None

    def _try(self, st, preds):
        entry = self._new("header", st, "try")
        self._link(preds, entry.idx)
        t = {
            "phase": "setup",
            "handler_entries": [],
            "finally_entry": None,
            "body_nodes": [],
            "catch_all": any(
                h.type is None or (isinstance(h.type, ast.Name) and h.type.id == "BaseException") for h in st.handlers
            ),
        }
        handler_nodes = []
        for h in st.handlers:
            hn = self._new("handler", h, "except " + (ast.unparse(h.type) if h.type else ""))
            handler_nodes.append(hn)
            t["handler_entries"].append(hn.idx)
        fin_entry = None
        if st.finalbody:
            fin_entry = self._new("join", st, "finally")
            t["finally_entry"] = fin_entry.idx
        self._try_stack.append(t)
        t["phase"] = "body"
        body_end = self._block(st.body, {entry.idx})
        # exception edges from every node of the body
        for n in t["body_nodes"]:
            for hn in handler_nodes:
                self._edge(n, hn.idx, exc=True)
            if fin_entry is not None:
                self._edge(n, fin_entry.idx, exc=True)
        if not t["catch_all"] and fin_entry is None:
            # uncaught classes propagate outward
            self._try_stack.pop()
            outer = self._raise_targets()
            self._try_stack.append(t)
            for n in t["body_nodes"]:
                for o in outer:
                    self._edge(n, o, exc=True)
        t["phase"] = "else"
        else_end = self._block(st.orelse, body_end) if st.orelse else body_end
        t["phase"] = "handler"
        outs = set(else_end)
        for h, hn in zip(st.handlers, handler_nodes):
            outs |= self._block(h.body, {hn.idx})
        t["phase"] = "finally"
        if fin_entry is not None:
            self._link(outs, fin_entry.idx)
            fin_end = self._block(st.finalbody, {fin_entry.idx})
            self._try_stack.pop()
            # after finally: continue normally, or keep propagating / returning
            for e in fin_end:
                for o in self._raise_targets():
                    self._edge(e, o, exc=True)
                self._edge(e, self.exit)  # pending return
            return fin_end
        self._try_stack.pop()
        return outs

    # ------------------------------------------------------------------ queries
    def header_exprs(self, n: Node) -> list[ast.AST]:
        """The expressions evaluated at this node (shallow for compound statements)."""
        st = n.stmt
        if st is None or n.kind in ("join", "entry", "exit", "raise_exit"):
            return []
        if n.kind == "handler":
            return [st.type] if st.type is not None else []
        if isinstance(st, ast.If) or isinstance(st, ast.While):
            return [st.test]
        if isinstance(st, (ast.For, ast.AsyncFor)):
            return [st.iter, st.target]
        if isinstance(st, (ast.With, ast.AsyncWith)):
            return [i.context_expr for i in st.items] + [i.optional_vars for i in st.items if i.optional_vars]
        if isinstance(st, ast.Match):
            return [st.subject]
        if isinstance(st, ast.match_case):
            return [st.guard] if st.guard else []
        if isinstance(st, (ast.Try,)):
            return []
        if isinstance(st, (ast.FunctionDef, ast.AsyncFunctionDef, ast.ClassDef)):
            return list(st.decorator_list)
        return [st]

    def calls_at(self, n: Node) -> list[ast.Call]:
        out = []
        for e in self.header_exprs(n):
            for sub in _walk_no_nested(e):
                if isinstance(sub, ast.Call):
                    out.append(sub)
        return out

    def find(self, pred) -> list[Node]:
        """Nodes with a call (or any sub-expression) satisfying pred(ast_node)."""
        out = []
        for n in self.nodes:
            for e in self.header_exprs(n):
                if any(pred(sub) for sub in _walk_no_nested(e)):
                    out.append(n)
                    break
        return out

    def find_calls(self, attr: str | None = None, recv_text: str | None = None, name: str | None = None) -> list[Node]:
        def p(sub):
            if not isinstance(sub, ast.Call):
                return False
            f = sub.func
            if name is not None:
                return isinstance(f, ast.Name) and f.id == name
            if not isinstance(f, ast.Attribute) or f.attr != attr:
                return False
            return recv_text is None or ast.unparse(f.value) == recv_text
        return self.find(p)

    def _compute_dom(self, entry: int, succ, pred):
        order = []
        seen = set()
        stack = [(entry, iter(sorted(succ[entry])))]
        seen.add(entry)
        while stack:
            n, it = stack[-1]
            for s in it:
                if s not in seen:
                    seen.add(s)
                    stack.append((s, iter(sorted(succ[s]))))
                    break
            else:
                order.append(n)
                stack.pop()
        rpo = list(reversed(order))
        index = {n: i for i, n in enumerate(rpo)}
        idom = {entry: entry}
        changed = True
        while changed:
            changed = False
            for b in rpo[1:]:
                ps = [p for p in pred[b] if p in idom]
                if not ps:
                    continue
                new = ps[0]
                for p in ps[1:]:
                    a, c = p, new
                    while a != c:
                        while index[a] > index[c]:
                            a = idom[a]
                        while index[c] > index[a]:
                            c = idom[c]
                    new = a
                if idom.get(b) != new:
                    idom[b] = new
                    changed = True
        return idom

    def dominates(self, a: int, b: int) -> bool:
        """Every path entry -> b passes through a."""
        if self._dom is None:
            self._dom = self._compute_dom(self.entry, self.succ, self.pred)
        if b not in self._dom:
            return True  # b unreachable
        n = b
        while True:
            if n == a:
                return True
            p = self._dom[n]
            if p == n:
                return False
            n = p

    def reachable(self, a: int, b: int, avoiding: set[int] = frozenset(), normal_only: bool = False) -> bool:
        seen = {a}
        stack = [a]
        while stack:
            n = stack.pop()
            for s in self.succ[n]:
                if normal_only and (n, s) in self.exc_edges:
                    continue
                if s == b:
                    return True
                if s in seen or s in avoiding:
                    continue
                seen.add(s)
                stack.append(s)
        return False

    def reachable_set(self, a: int, avoiding: set[int] = frozenset(), normal_only: bool = False) -> set[int]:
        seen = {a}
        stack = [a]
        while stack:
            n = stack.pop()
            for s in self.succ[n]:
                if normal_only and (n, s) in self.exc_edges:
                    continue
                if s in seen or s in avoiding:
                    continue
                seen.add(s)
                stack.append(s)
        return seen

    def all_paths_pass(self, a: int, b: int, through: set[int], normal_only=False) -> bool:
        """Every path a -> b passes through a node of `through` (a, b themselves excluded)."""
        return not self.reachable(a, b, avoiding=set(through), normal_only=normal_only) or a in through

    def loc(self, n: Node) -> str:
        return f"{self.fn.module.relpath}:{n.lineno}"


def _walk_no_nested(node):
    """ast.walk that does not descend into nested function/lambda/class bodies."""
    todo = [node]
    while todo:
        n = todo.pop()
        yield n
        for c in ast.iter_child_nodes(n):
            if isinstance(c, (ast.FunctionDef, ast.AsyncFunctionDef, ast.Lambda, ast.ClassDef)):
                continue
            todo.append(c)


def walk_shallow(node):
    return _walk_no_nested(node)


def enclosing_loops(fn_node) -> dict[int, list[ast.AST]]:
    """id(stmt) -> list of enclosing loop statements (outermost first)."""
    out: dict[int, list] = {}

    def visit(stmts, loops):
        for st in stmts:
            out[id(st)] = list(loops)
            if isinstance(st, (ast.FunctionDef, ast.AsyncFunctionDef, ast.ClassDef)):
                continue
            inner = loops + [st] if isinstance(st, (ast.While, ast.For)) else loops
            for fld in ("body", "orelse", "finalbody"):
                visit(getattr(st, fld, []) or [], inner)
            for h in getattr(st, "handlers", []) or []:
                visit(h.body, inner)
            for c in getattr(st, "cases", []) or []:
                visit(c.body, inner)

    visit(fn_node.body, [])
    return out


def enclosing_stmts(fn_node) -> dict[int, list[ast.AST]]:
    """id(stmt) -> chain of enclosing compound statements / handlers (outermost first)."""
    out: dict[int, list] = {}

    def visit(stmts, chain):
        for st in stmts:
            out[id(st)] = list(chain)
            if isinstance(st, (ast.FunctionDef, ast.AsyncFunctionDef, ast.ClassDef)):
                continue
            for fld in ("body", "orelse", "finalbody"):
                sub = getattr(st, fld, None)
                if isinstance(sub, list):
                    visit(sub, chain + [(st, fld)])
            for h in getattr(st, "handlers", []) or []:
                out[id(h)] = chain + [(st, "handlers")]
                visit(h.body, chain + [(st, "handlers"), (h, "body")])
            for c in getattr(st, "cases", []) or []:
                visit(c.body, chain + [(st, "cases"), (c, "body")])

    visit(fn_node.body, [])
    return out
