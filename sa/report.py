"""E6 - obligations, known findings, evidence files, exit codes."""

from __future__ import annotations

import json
import os
import sys
import time
import traceback
from dataclasses import dataclass, field
from pathlib import Path

from .model import AnalysisError, load_program, repo_root

VERIF = Path(__file__).resolve().parent.parent
KNOWN = VERIF / "known_findings.json"


@dataclass
class Obligation:
    rule: str
    construct: str  # module:qualname (never a line number)
    ok: bool
    detail: str = ""
    cell: str = ""
    where: str = ""  # file:line for diagnosis only
    extra: dict = field(default_factory=dict)

    def fkey(self):
        return (self.rule, self.construct, self.cell)


class Check:
    def __init__(self, pid: str, title: str, explanation: str, assumptions: list[str], rule_text: str):
        self.pid = pid
        self.title = title
        self.explanation = explanation
        self.assumptions = assumptions
        self.rule_text = rule_text
        self.obligations: list[Obligation] = []
        self.analysed: dict = {}
        self.samples: list = []
        self.t0 = time.time()
        self.tier = os.environ.get("VERIF_TIER", "quick")
        self.seed = int(os.environ.get("VERIF_SEED", "0") or 0)
        self.extra_cov: dict = {}

    # ------------------------------------------------------------------
    def ob(self, rule: str, construct: str, ok: bool, detail: str = "", cell: str = "", where: str = "", **extra):
        self.obligations.append(Obligation(rule, construct, bool(ok), detail, cell, where, extra))
        return ok

    def floor(self, what: str, count: int, minimum: int):
        self.analysed[what] = count
        if count < minimum:
            # fewer instances than were confirmed by hand: the rules that quantify over them pass vacuously, so the run cannot end as "held" (exit 2) - unless
            # some rule does report a violation, which is the better report (a changed tree often shrinks a population BECAUSE it broke what the rule is about)
            self.undecided_rule(f"instance floor: {what} = {count} < {minimum} (anchor renamed or analysis blind)")

    def sample(self, s):
        if len(self.samples) < 12:
            self.samples.append(s)

    # ------------------------------------------------------------------
    def _known(self):
        if not KNOWN.exists():
            return []
        data = json.loads(KNOWN.read_text())
        return [k for k in data.get("findings", []) if k.get("property") == self.pid]

    def undecided_rule(self, what: str):
        """record that a rule could not decide (fails the run as analysis-broken unless a violation is reported anyway)"""
        if not hasattr(self, "undecided"):
            self.undecided = []
        self.undecided.append(what)

    def finish(self) -> int:
        known = self._known()
        known_keys = {(k["rule"], k["construct"], k.get("cell", "")): k for k in known}
        failed = [o for o in self.obligations if not o.ok]
        # group failures by finding key
        groups: dict[tuple, list[Obligation]] = {}
        for o in failed:
            groups.setdefault(o.fkey(), []).append(o)
        new = {k: v for k, v in groups.items() if k not in known_keys}
        old = {k: v for k, v in groups.items() if k in known_keys}
        lines = []
        for k, v in sorted(old.items()):
            kf = known_keys[k]
            lines.append(f"KNOWN-FINDING: property={self.pid} rule={k[0]} construct={k[1]}"
                         f"{' cell=' + k[2] if k[2] else ''} :: {kf.get('what_fails', v[0].detail)}")
        stale = [k for k in known_keys if k not in groups]
        rc = 0
        replay_dir = Path(os.environ.get("VERIF_REPLAY_DIR", VERIF / "replay"))
        if new:
            rc = 1
            replay_dir.mkdir(exist_ok=True, parents=True)
            for i, (k, v) in enumerate(sorted(new.items())):
                path = replay_dir / f"{self.pid}-{i}.json"
                path.write_text(json.dumps({
                    "property": self.pid, "rule": k[0], "construct": k[1], "cell": k[2],
                    "instances": [{"detail": o.detail, "where": o.where, **{a: b for a, b in o.extra.items()}} for o in v[:10]],
                    "repo": str(repo_root()),
                }, indent=1, default=str))
                lines.append(f"VIOLATION property={self.pid} replay={path}")
                lines.append(f"  rule {k[0]} @ {k[1]}{' [' + k[2] + ']' if k[2] else ''}: {v[0].detail}"
                             f"{' (' + v[0].where + ')' if v[0].where else ''}")
        for k in stale:
            lines.append(f"NOTE: listed known finding no longer reproduces: property={self.pid} rule={k[0]} construct={k[1]} {k[2]}")
        self._write_evidence(len(new), [f"{k[0]}@{k[1]}[{k[2]}]" for k in old])
        n_ok = sum(1 for o in self.obligations if o.ok)
        print(f"[{self.pid}] {self.title}: {len(self.obligations)} obligations, {n_ok} discharged, "
              f"{len(old)} known finding(s), {len(new)} new violation(s); analysed={json.dumps(self.analysed)}")
        for l in lines:
            print(l)
        undecided = getattr(self, "undecided", [])
        if undecided:
            # a rule that could not reach a verdict: no silent pass - but a violation found elsewhere is still the better report
            for u in undecided:
                print(f"{'NOTE' if rc else 'ANALYSIS-ERROR'} property={self.pid}: undecided: {u}")
            if rc == 0:
                rc = 2
        return rc

    def _write_evidence(self, n_viol: int, known_present: list[str]):
        obs = self.obligations
        distinct = {(o.rule, o.construct, o.cell) for o in obs}
        samples = list(self.samples)
        for o in obs[:: max(1, len(obs) // 8)][:8]:
            samples.append({"rule": o.rule, "construct": o.construct, "cell": o.cell, "verdict": "ok" if o.ok else "FAILS",
                            "detail": o.detail[:300]})
        ev = {
            "property_id": self.pid,
            "tier": self.tier if self.tier in ("quick", "thorough") else "quick",
            "seed": self.seed,
            "level": "other",
            "coverage": {
                "explanation": self.explanation,
                "obligations": len(obs),
                "discharged": sum(1 for o in obs if o.ok),
                "evaluations": max(1, len(obs)),
                "distinct_nontrivial": len(distinct),
                "rule": self.rule_text,
                "samples": samples[:20] or [{"note": "no obligations"}],
                "analysed": self.analysed,
                "known_findings_present": known_present,
                "exhaustive": True,
                "repo": str(repo_root()),
                "source_digest": load_program().digest(),
                **self.extra_cov,
            },
            "assumptions": self.assumptions,
            "wall_s": round(time.time() - self.t0, 3),
            "violations": n_viol,
        }
        out = Path(os.environ.get("VERIF_EVIDENCE_DIR", VERIF / "evidence"))
        out.mkdir(exist_ok=True, parents=True)
        (out / f"{self.pid}.json").write_text(json.dumps(ev, indent=1, default=str))


def main(pid: str, build):
    """Entry point shared by all checks: build(check) populates obligations."""
    args = sys.argv[1:]
    if "--thorough" in args:
        os.environ["VERIF_TIER"] = "thorough"
    if "--explain" in args:
        p = args[args.index("--explain") + 1]
        data = json.loads(Path(p).read_text())
        print(json.dumps(data, indent=1))
        print("re-running the check on the current tree:")
    try:
        ck = build()
        rc = ck.finish()
        if rc == 0 and os.environ.get("VERIF_TIER") == "thorough" and "--no-selftest" not in args:
            from selftest import runner  # lazy: only the thorough tier runs mutants
            rc = runner.run_for(pid, ck)
        sys.exit(rc)
    except AnalysisError as e:
        print(f"ANALYSIS-ERROR property={pid}: {e}")
        sys.exit(2)
    except SystemExit:
        raise
    except BaseException as e:  # noqa: BLE001
        traceback.print_exc()
        print(f"ANALYSIS-ERROR property={pid}: internal error {type(e).__name__}: {e}")
        sys.exit(2)
