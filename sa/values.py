"""Abstract values of the E4 interpreter."""

from __future__ import annotations

import ast
from dataclasses import dataclass, field

from .model import ClassInfo, FuncInfo, Module, Program


@dataclass(frozen=True)
class TypeRef:
    """Light type: set of SDK class fq names / external names + primitives."""

    classes: tuple[str, ...] = ()  # SDK class fq names
    optional: bool = False
    prim: str | None = None  # int|str|bool|float|callable|ext:<name>
    ret: "TypeRef | None" = None  # for callables

    def single_class(self) -> str | None:
        return self.classes[0] if len(self.classes) == 1 and self.prim is None else None


def parse_annotation(prog: Program, mod: Module, ann: ast.expr | None) -> TypeRef | None:
    if ann is None:
        return None
    if isinstance(ann, ast.Constant):
        if ann.value is None:
            return TypeRef(optional=True)
        if isinstance(ann.value, str):
            try:
                return parse_annotation(prog, mod, ast.parse(ann.value, mode="eval").body)
            except SyntaxError:
                return None
        return None
    if isinstance(ann, ast.BinOp) and isinstance(ann.op, ast.BitOr):
        l = parse_annotation(prog, mod, ann.left)
        r = parse_annotation(prog, mod, ann.right)
        if l is None and r is None:
            return None
        if l is None or r is None:
            known = l or r
            # unknown member of a union: keep optional-ness only
            if known.classes == () and known.prim is None:
                return TypeRef(optional=True)
            return None
        classes = tuple(dict.fromkeys(l.classes + r.classes))
        prim = l.prim if l.prim == r.prim else (l.prim or r.prim)
        if l.prim and r.prim and l.prim != r.prim:
            prim = "mixed"
        return TypeRef(classes, l.optional or r.optional, prim, l.ret or r.ret)
    if isinstance(ann, ast.Subscript):
        base = ann.value
        bname = base.attr if isinstance(base, ast.Attribute) else getattr(base, "id", "")
        if bname == "Optional":
            inner = parse_annotation(prog, mod, ann.slice)
            if inner is None:
                return TypeRef(optional=True)
            return TypeRef(inner.classes, True, inner.prim, inner.ret)
        if bname == "Callable":
            ret = None
            sl = ann.slice
            if isinstance(sl, ast.Tuple) and len(sl.elts) == 2:
                ret = parse_annotation(prog, mod, sl.elts[1])
            return TypeRef(prim="callable", ret=ret)
        if bname in ("list", "dict", "set", "tuple", "Sequence", "MutableMapping", "Mapping", "deque"):
            return TypeRef(prim=f"ext:{bname}")
        return parse_annotation(prog, mod, base)
    if isinstance(ann, (ast.Name, ast.Attribute)):
        if isinstance(ann, ast.Name):
            if ann.id in ("int", "str", "bool", "float", "bytes"):
                return TypeRef(prim=ann.id)
            if ann.id in ("Any", "object"):
                return None
            if ann.id == "Callable":
                return TypeRef(prim="callable")
        fq = prog.resolve_name_expr(mod, ann)
        if fq is None:
            return None
        if fq in prog.classes:
            return TypeRef(classes=(fq,))
        # alias like OperationPayload: TypeAlias = str
        m, _, n = fq.rpartition(".")
        mm = prog.modules.get(m)
        if mm is not None and n in mm.globals:
            g = mm.globals[n]
            if isinstance(g, (ast.Name, ast.Attribute, ast.BinOp, ast.Subscript)):
                if isinstance(g, ast.Name) and g.id == n:
                    return None
                if isinstance(g, ast.Call):
                    return None
                return parse_annotation(prog, mm, g)
            return None
        if fq.startswith("builtins."):
            return TypeRef(prim=f"ext:{fq}")
        return TypeRef(prim=f"ext:{fq}")
    return None


class V:
    """Base of abstract values."""

    def key(self) -> str:  # canonical, position-free text
        raise NotImplementedError


@dataclass(frozen=True)
class Const(V):
    value: object

    def key(self):
        return repr(self.value)


NONE = Const(None)
TRUE = Const(True)
FALSE = Const(False)


@dataclass(frozen=True)
class EnumVal(V):
    cls_fq: str
    name: str
    value: object = None

    def key(self):
        return f"{self.cls_fq.rsplit('.', 1)[1]}.{self.name}"


@dataclass(frozen=True)
class Sym(V):
    """Opaque symbolic value with provenance key and optional light type."""

    k: str
    typ: TypeRef | None = None
    parts: tuple = ()  # structured provenance, e.g. ("SER", serdes_key, src_key)

    def key(self):
        return self.k


class Unknown(V):
    _n = 0

    def __init__(self, reason: str = ""):
        Unknown._n += 1
        self.n = Unknown._n
        self.reason = reason

    def key(self):
        return f"?{self.reason}"


class Obj(V):
    """Abstract instance of an SDK class (or of a builtin exception class)."""

    _n = 0

    def __init__(self, cls: ClassInfo | None, fields: dict[str, V] | None = None, label: str = "",
                 builtin_cls: str | None = None):
        Obj._n += 1
        self.oid = Obj._n
        self.cls = cls
        self.builtin_cls = builtin_cls  # "builtins.ValueError" for builtin exceptions
        self.fields: dict[str, V] = fields or {}
        self.label = label
        self.args: list[V] = []

    @property
    def cls_fq(self) -> str:
        return self.cls.fq if self.cls else (self.builtin_cls or "?")

    @property
    def cls_name(self) -> str:
        return self.cls_fq.rsplit(".", 1)[-1]

    def key(self):
        if self.label:
            return self.label
        inner = ",".join(f"{k}={v.key()}" for k, v in sorted(self.fields.items()))
        return f"{self.cls_name}({inner})"


class AbstractExc(V):
    """Some exception whose class is an unknown subclass of `base` (not under `excluded`)."""

    def __init__(self, base_fq: str, label: str, excluded: tuple[str, ...] = ()):
        self.base_fq = base_fq
        self.label = label
        self.excluded = excluded

    def key(self):
        return f"exc<{self.base_fq.rsplit('.', 1)[-1]}>:{self.label}"


@dataclass
class ClassVal(V):
    cls: ClassInfo

    def key(self):
        return f"class:{self.cls.name}"


@dataclass
class ExtRef(V):
    """Reference to something outside the SDK (stdlib module / class / function)."""

    fq: str

    def key(self):
        return f"ext:{self.fq}"


class FuncVal(V):
    def __init__(self, fn: FuncInfo, self_val: V | None = None, closure=None, bound_cls: ClassInfo | None = None):
        self.fn = fn
        self.self_val = self_val
        self.closure = closure  # Frame
        self.bound_cls = bound_cls

    def key(self):
        return f"fn:{self.fn.qualname}"


class UserFn(V):
    """A callable supplied by the user (or a summarised packaged strategy)."""

    def __init__(self, label: str, ret: TypeRef | None = None):
        self.label = label
        self.ret = ret

    def key(self):
        return self.label


class SuperVal(V):
    def __init__(self, cls: ClassInfo, self_val: V):
        self.cls = cls
        self.self_val = self_val

    def key(self):
        return "super"


class SeqVal(V):
    def __init__(self, kind: str, items: list[V]):
        self.kind = kind  # list|tuple|set
        self.items = items

    def key(self):
        return f"{self.kind}[{','.join(i.key() for i in self.items)}]"


class DictVal(V):
    def __init__(self, items: dict | None = None):
        self.items: dict[object, V] = items or {}  # python const key -> V
        self.open = False  # True if unknown keys may have been written

    def key(self):
        return "{" + ",".join(f"{k!r}:{v.key()}" for k, v in self.items.items()) + "}"


@dataclass
class Event:
    kind: str
    data: dict = field(default_factory=dict)
    site: str = ""

    def brief(self) -> str:
        d = self.data
        if self.kind == "CKPT":
            return (f"CKPT({d.get('type')},{d.get('sub_type')},{d.get('action')},"
                    f"{'sync' if d.get('sync') else 'async'},payload={d.get('payload')})")
        if self.kind == "USER":
            return f"USER({d.get('label')})"
        if self.kind in ("SER", "DES"):
            return f"{self.kind}(serdes={d.get('serdes')},src={d.get('src')})"
        if self.kind == "EXT":
            return f"EXT({d.get('recv')}.{d.get('method')})"
        if self.kind == "READ":
            return f"READ(gen={d.get('gen')},status={d.get('status')})"
        inner = ",".join(f"{k}={v}" for k, v in d.items() if not (k.endswith("_v") or k in ("arg_values", "kwarg_values", "obj")))
        return f"{self.kind}({inner})"
