"""E4 - abstract interpreter for the Python subset used by the SDK.

Paths are enumerated by *replay*: `enumerate_paths(run)` calls `run(chooser)`
repeatedly; every non-deterministic point asks the chooser, which follows a
recorded prefix and then always takes option 0, remembering the alternatives.
The interpretation is exact for loop-free code over the finite domain chosen by
the driver; loops are cut after a small number of iterations and the cut is
recorded as a LOOP_CUT event so that rules can refuse to judge such traces.
"""

from __future__ import annotations

import ast
import builtins
import importlib
from dataclasses import dataclass

from .model import AnalysisError, ClassInfo, FuncInfo, Module, Program, PKG
from .values import (
    FALSE,
    NONE,
    TRUE,
    AbstractExc,
    ClassVal,
    Const,
    DictVal,
    EnumVal,
    Event,
    ExtRef,
    FuncVal,
    Obj,
    SeqVal,
    SuperVal,
    Sym,
    TypeRef,
    Unknown,
    UserFn,
    V,
    parse_annotation,
)


# ---------------------------------------------------------------------------
# path enumeration
# ---------------------------------------------------------------------------
class Chooser:
    def __init__(self, prefix):
        self.prefix = list(prefix)
        self.pos = 0
        self.log: list[tuple[int, int, str]] = []

    def choose(self, n: int, label: str) -> int:
        if n <= 1:
            return 0
        c = self.prefix[self.pos] if self.pos < len(self.prefix) else 0
        self.pos += 1
        self.log.append((n, c, label))
        return c


def enumerate_paths(run, max_paths: int = 50000):
    stack = [[]]
    results = []
    while stack:
        prefix = stack.pop()
        ch = Chooser(prefix)
        results.append(run(ch))
        if len(results) > max_paths:
            raise AnalysisError(f"path explosion (> {max_paths} paths)")
        for i in range(len(prefix), len(ch.log)):
            n, c, _ = ch.log[i]
            for alt in range(c + 1, n):
                stack.append([x[1] for x in ch.log[:i]] + [alt])
    return results


# ---------------------------------------------------------------------------
class _Raise(Exception):
    def __init__(self, exc: V, site: str = "", origin: str = "new"):
        self.exc = exc
        self.site = site
        self.origin = origin  # new | reraise


class _Return(Exception):
    def __init__(self, value: V):
        self.value = value


class _Break(Exception):
    pass


class _BodyControl(Exception):
    """return / break / continue leaving the body of a `with <generator context manager>`: it travels through the generator's frame like the
    GeneratorExit that close() throws at the yield (finally blocks run, `except Exception` does not see it) and is re-raised as itself outside."""

    def __init__(self, inner: Exception):
        self.inner = inner


class GenCM(V):
    """the object a function decorated with @contextmanager returns: nothing of its body has run yet."""

    def __init__(self, fn, self_val, args, kwargs, closure, bound_cls):
        self.fn, self.self_val, self.args, self.kwargs, self.closure, self.bound_cls = fn, self_val, args, kwargs, closure, bound_cls

    def key(self):
        return f"contextmanager:{self.fn.qualname}({','.join(a.key() for a in self.args)})"


class _Continue(Exception):
    pass


class BoundExt(V):
    """method of an external / opaque receiver."""

    def __init__(self, recv: V, attr: str):
        self.recv = recv
        self.attr = attr

    def key(self):
        return f"{self.recv.key()}.{self.attr}"


class SpecialObj(V):
    """Driver-provided object with python-implemented methods."""

    def __init__(self, label: str, methods: dict, attrs: dict | None = None):
        self.label = label
        self.methods = methods
        self.attrs = attrs or {}

    def key(self):
        return self.label


class BoundSpecial(V):
    def __init__(self, fn, label):
        self.fn = fn
        self.label = label

    def key(self):
        return self.label


class Frame:
    def __init__(self, fn: FuncInfo | None, module: Module, locals_: dict, closure: "Frame | None" = None,
                 cls: ClassInfo | None = None, self_val: V | None = None):
        self.fn = fn
        self.module = module
        self.locals = locals_
        self.closure = closure
        self.cls = cls
        self.self_val = self_val
        self.yield_action = None  # set while the body of a @contextmanager generator is run for a `with` statement

    def lookup(self, name: str):
        f = self
        while f is not None:
            if name in f.locals:
                return f.locals[name]
            f = f.closure
        return None

    def assign_nonlocal(self, name: str, value: V) -> bool:
        f = self.closure
        while f is not None:
            if name in f.locals:
                f.locals[name] = value
                return True
            f = f.closure
        return False


@dataclass
class Config:
    hooks: dict  # fn fq -> handler(interp, fn, self_val, args, kwargs, node) -> V
    opaque_modules: tuple = ()  # short module names whose functions are not inlined
    user_raises: dict = None  # label-suffix -> list of exception specs
    default_user_raises: tuple = ("builtins.Exception*",)
    ext_calls: dict = None  # ext fq -> handler(interp, args, kwargs, node) -> V
    ext_method_hooks: dict = None  # method name -> handler(interp, recv, args, kwargs, node) -> V|None
    max_depth: int = 30
    max_steps: int = 40000
    loop_iters: int = 1
    while_iters: int = 2
    record_ext: bool = True
    structured_fstrings: bool = False


class Interp:
    def __init__(self, prog: Program, chooser: Chooser, config: Config):
        self.prog = prog
        self.ch = chooser
        self.cfg = config
        self.events: list[Event] = []
        self.memo: dict[str, int] = {}
        self.pc: list[tuple[str, object]] = []
        self.depth = 0
        self.steps = 0
        self.counter = 0
        self.exc_stack: list[V] = []
        self.global_cache: dict[str, V] = {}
        self.func_by_node = {id(fi.node): fi for fi in prog.functions.values()}
        self.inst_attr_cache: dict[str, dict[str, TypeRef | None]] = {}
        self.site_stack: list[str] = []
        self.nofork = 0
        self.notes: list[str] = []

    # ------------------------------------------------------------------ util
    def fresh(self, prefix: str) -> str:
        self.counter += 1
        return f"{prefix}#{self.counter}"

    def site(self, node) -> str:
        fn = self.site_stack[-1] if self.site_stack else "?"
        return f"{fn}:{getattr(node, 'lineno', 0)}"

    def emit(self, kind: str, node, **data) -> Event:
        ev = Event(kind, data, self.site(node) if node is not None else "")
        self.events.append(ev)
        return ev

    def decide(self, key: str, n: int = 2, labels=None) -> int:
        if key in self.memo:
            return self.memo[key]
        c = self.ch.choose(n, key)
        self.memo[key] = c
        self.pc.append((key, labels[c] if labels else c))
        self.events.append(Event("DECIDE", {"key": key, "outcome": labels[c] if labels else c}, ""))
        return c

    def decide_bool(self, key: str) -> bool:
        # option 0 = True
        return self.decide(key, 2, (True, False)) == 0

    # ------------------------------------------------------------------ types
    def inst_attr_types(self, ci: ClassInfo) -> dict:
        if ci.fq in self.inst_attr_cache:
            return self.inst_attr_cache[ci.fq]
        out: dict[str, TypeRef | None] = {}
        for c in reversed(ci.mro()):
            for f in c.fields:
                out[f.name] = parse_annotation(self.prog, c.module, f.annotation)
            init = c.methods.get("__init__")
            if init is None:
                continue
            params = {}
            a = init.node.args
            for p in a.posonlyargs + a.args + a.kwonlyargs:
                params[p.arg] = parse_annotation(self.prog, c.module, p.annotation)
            for st in ast.walk(init.node):
                tgt = None
                ann = None
                val = None
                if isinstance(st, ast.AnnAssign):
                    tgt, ann, val = st.target, st.annotation, st.value
                elif isinstance(st, ast.Assign) and len(st.targets) == 1:
                    tgt, val = st.targets[0], st.value
                if (
                    isinstance(tgt, ast.Attribute)
                    and isinstance(tgt.value, ast.Name)
                    and tgt.value.id == "self"
                ):
                    t = parse_annotation(self.prog, c.module, ann) if ann is not None else None
                    if t is None and isinstance(val, ast.Name) and val.id in params:
                        t = params[val.id]
                    if t is None and isinstance(val, ast.Call):
                        fq = self.prog.resolve_name_expr(c.module, val.func)
                        if fq and fq in self.prog.classes:
                            t = TypeRef(classes=(fq,))
                        elif fq:
                            t = TypeRef(prim=f"ext:{fq}")
                    if tgt.attr not in out or t is not None:
                        out[tgt.attr] = t
        self.inst_attr_cache[ci.fq] = out
        return out

    def sym_class(self, s: Sym) -> ClassInfo | None:
        if s.typ is None:
            return None
        fq = s.typ.single_class()
        return self.prog.classes.get(fq) if fq else None

    # ------------------------------------------------------------------ truth
    def truth(self, v: V) -> bool:
        if isinstance(v, Const):
            return bool(v.value)
        if isinstance(v, (EnumVal, ClassVal, FuncVal, UserFn, ExtRef, BoundExt, SpecialObj, BoundSpecial, AbstractExc)):
            return True
        if isinstance(v, Obj):
            if v.cls is not None and (v.cls.find_method("__bool__") or v.cls.find_method("__len__")):
                return self.decide_bool(f"truthy({v.key()}#{v.oid})")
            return True
        if isinstance(v, SeqVal):
            return len(v.items) > 0
        if isinstance(v, DictVal):
            if v.open:
                return self.decide_bool(f"truthy(dict#{id(v)})")
            return len(v.items) > 0
        if isinstance(v, Sym):
            return self.sym_truth(v)
        if isinstance(v, Unknown):
            return self.decide_bool(f"truthy(?{v.n}:{v.reason})")
        return self.decide_bool(f"truthy({v.key()})")

    def sym_is_none(self, s: Sym) -> bool:
        t = s.typ
        if t is not None and not t.optional and (t.classes or t.prim):
            return False
        k = f"{s.k} is None"
        if k in self.memo:
            return self.memo[k] == 0
        tk = f"truthy({s.k})"
        if self.memo.get(tk) == 0:
            return False
        return self.decide_bool(k)

    def sym_truth(self, s: Sym) -> bool:
        tk = f"truthy({s.k})"
        if tk in self.memo:
            return self.memo[tk] == 0
        t = s.typ
        nk = f"{s.k} is None"
        if self.memo.get(nk) == 0:
            return False
        if t is not None and t.optional and (t.classes or (t.prim and t.prim not in ("int", "str", "bool", "float", "mixed", "ext:list", "ext:dict", "ext:set", "ext:tuple"))):
            # Optional[instance]: truthiness == not None (SDK model classes define no __bool__)
            if self._classes_plain(t):
                return not self.sym_is_none(s)
        if t is not None and not t.optional and t.classes and self._classes_plain(t):
            return True
        if t is not None and not t.optional and t.prim == "callable":
            return True
        if t is not None and t.optional and t.prim == "callable":
            return not self.sym_is_none(s)
        return self.decide_bool(tk)

    def _classes_plain(self, t: TypeRef) -> bool:
        for fq in t.classes:
            ci = self.prog.classes.get(fq)
            if ci is None:
                return False
            if ci.find_method("__bool__") or ci.find_method("__len__"):
                return False
        return True

    # ------------------------------------------------------------------ names
    def lookup_name(self, name: str, frame: Frame, node=None) -> V:
        v = frame.lookup(name)
        if v is not None:
            return v
        return self.module_name(frame.module, name)

    def module_name(self, m: Module, name: str) -> V:
        if name in m.classes:
            return ClassVal(m.classes[name])
        if name in m.functions:
            return FuncVal(m.functions[name])
        if name in m.globals:
            return self.module_global(m, name)
        if name in m.imports:
            return self.resolve_fq(m.imports[name])
        if hasattr(builtins, name):
            return ExtRef(f"builtins.{name}")
        return Unknown(f"name:{name}")

    def module_global(self, m: Module, name: str) -> V:
        gk = f"{m.name}.{name}"
        if gk in self.global_cache:
            return self.global_cache[gk]
        self.global_cache[gk] = Unknown(f"recursive-global:{name}")
        expr = m.globals[name]
        fr = Frame(None, m, {})
        saved_events = self.events
        self.events = []  # module initialisation is not part of the trace
        self.site_stack.append(f"{m.relpath}:<module>")
        self.nofork += 1
        try:
            try:
                v = self.eval(expr, fr)
            except (_Raise, AnalysisError):
                v = Unknown(f"global:{name}")
        finally:
            self.nofork -= 1
            self.site_stack.pop()
            self.events = saved_events
        if isinstance(v, Obj) and not v.label:
            v.label = f"global:{m.short()}.{name}"
        if isinstance(v, Unknown):
            v = Sym(f"global:{m.short()}.{name}")
        self.global_cache[gk] = v
        return v

    def resolve_fq(self, fq: str) -> V:
        fq = self.prog._canon(fq)
        if fq in self.prog.classes:
            return ClassVal(self.prog.classes[fq])
        if fq in self.prog.modules:
            return ExtRef(fq)  # SDK module object; attribute access resolves below
        mod, _, name = fq.rpartition(".")
        mm = self.prog.modules.get(mod)
        if mm is not None:
            return self.module_name(mm, name)
        return ExtRef(fq)

    # ------------------------------------------------------------------ expr
    def eval(self, node: ast.expr, frame: Frame) -> V:
        self.steps += 1
        if self.steps > self.cfg.max_steps:
            raise AnalysisError("step budget exceeded (possible unbounded recursion)")
        m = getattr(self, "e_" + type(node).__name__, None)
        if m is None:
            raise AnalysisError(f"unsupported expression {type(node).__name__} at {self.site(node)}")
        return m(node, frame)

    def e_Constant(self, node, frame):
        return Const(node.value)

    def e_Name(self, node, frame):
        return self.lookup_name(node.id, frame, node)

    def e_NamedExpr(self, node, frame):
        v = self.eval(node.value, frame)
        frame.locals[node.target.id] = v
        return v

    def e_Attribute(self, node, frame):
        base = self.eval(node.value, frame)
        return self.getattr_v(base, node.attr, node)

    def e_JoinedStr(self, node, frame):
        # formatting only; evaluate embedded calls (they could have effects), nothing else
        has_call = any(isinstance(n, ast.Call) for n in ast.walk(node))
        if has_call:
            self.nofork += 1
            try:
                for val in node.values:
                    if isinstance(val, ast.FormattedValue) and any(
                        isinstance(n, ast.Call) for n in ast.walk(val)
                    ):
                        try:
                            self.eval(val.value, frame)
                        except _Raise:
                            pass
            finally:
                self.nofork -= 1
        parts = None
        if getattr(self.cfg, "structured_fstrings", False) and not has_call:
            # keep what the text is made of (constants and the values of plain names / attributes), for value-flow rules
            self.nofork += 1
            try:
                segs = []
                for val in node.values:
                    if isinstance(val, ast.Constant):
                        segs.append(Const(val.value))
                    elif isinstance(val, ast.FormattedValue) and val.format_spec is None and val.conversion == -1:
                        segs.append(self.eval(val.value, frame))
                    else:
                        segs.append(Unknown("fmt"))
                parts = ("CONCAT", tuple(segs))
            finally:
                self.nofork -= 1
        return Sym(f"fstr@{self.site(node)}", TypeRef(prim="str"), parts=parts or ())

    def e_FormattedValue(self, node, frame):
        return Sym("fmt", TypeRef(prim="str"))

    def e_Tuple(self, node, frame):
        return SeqVal("tuple", self._elts(node.elts, frame))

    def e_List(self, node, frame):
        return SeqVal("list", self._elts(node.elts, frame))

    def e_Set(self, node, frame):
        return SeqVal("set", self._elts(node.elts, frame))

    def _elts(self, elts, frame):
        out = []
        for e in elts:
            if isinstance(e, ast.Starred):
                v = self.eval(e.value, frame)
                if isinstance(v, SeqVal):
                    out.extend(v.items)
                else:
                    out.append(Unknown("starred"))
            else:
                out.append(self.eval(e, frame))
        return out

    def e_Dict(self, node, frame):
        d = DictVal()
        for k, v in zip(node.keys, node.values):
            if k is None:
                sv = self.eval(v, frame)
                if isinstance(sv, DictVal):
                    d.items.update(sv.items)
                    d.open = d.open or sv.open
                else:
                    d.open = True
                continue
            kv = self.eval(k, frame)
            vv = self.eval(v, frame)
            if isinstance(kv, Const):
                d.items[kv.value] = vv
            else:
                d.open = True
                d.items[f"<{kv.key()}>"] = vv
        return d

    def e_Yield(self, node, frame):
        if frame.yield_action is None:
            raise AnalysisError(f"unsupported expression Yield at {self.site(node)}")
        value = self.eval(node.value, frame) if node.value is not None else NONE
        frame.yield_action(value)
        return NONE

    def e_Lambda(self, node, frame):
        fi = self.func_by_node.get(id(node))
        if fi is None:
            fi = FuncInfo(f"<lambda@{node.lineno}>", f"<lambda@{node.lineno}>", frame.module, node)
        return FuncVal(fi, closure=frame)

    def e_ListComp(self, node, frame):
        return self._comp(node, frame)

    e_SetComp = e_ListComp
    e_GeneratorExp = e_ListComp
    e_DictComp = e_ListComp

    def _comp(self, node, frame):
        # comprehension over a concrete sequence is evaluated; otherwise opaque
        gens = node.generators
        if len(gens) == 1 and isinstance(node, ast.DictComp):
            it = self.eval(gens[0].iter, frame)
            if isinstance(it, (SeqVal, DictVal)):
                items = it.items if isinstance(it, SeqVal) else [Const(k) for k in it.items]
                out = DictVal()
                sub = Frame(frame.fn, frame.module, {}, closure=frame, cls=frame.cls, self_val=frame.self_val)
                for item in items:
                    self.assign(gens[0].target, item, sub, node)
                    if all(self.truth(self.eval(c, sub)) for c in gens[0].ifs):
                        k = self.eval(node.key, sub)
                        v = self.eval(node.value, sub)
                        if isinstance(k, Const):
                            out.items[k.value] = v
                        else:
                            out.open = True
                            out.items[f"<{k.key()}>"] = v
                return out
            return Sym(f"dictcomp@{self.site(node)}<{it.key()}>", TypeRef(prim="ext:builtins.dict"))
        if len(gens) == 1 and not isinstance(node, ast.DictComp):
            it = self.eval(gens[0].iter, frame)
            if isinstance(it, SeqVal) and (isinstance(gens[0].target, ast.Name) or (
                    isinstance(gens[0].target, ast.Tuple) and all(isinstance(x, SeqVal) and len(x.items) == len(gens[0].target.elts) for x in it.items))):
                out = []
                sub = Frame(frame.fn, frame.module, {}, closure=frame, cls=frame.cls, self_val=frame.self_val)
                for item in it.items:
                    self.assign(gens[0].target, item, sub, node)
                    if all(self.truth(self.eval(c, sub)) for c in gens[0].ifs):
                        out.append(self.eval(node.elt, sub))
                kind = "set" if isinstance(node, ast.SetComp) else "list"
                return SeqVal(kind, out)
            return Sym(f"comp@{self.site(node)}<{it.key()}>")
        return Sym(f"comp@{self.site(node)}")

    def e_Starred(self, node, frame):
        return Unknown("starred")

    def e_Subscript(self, node, frame):
        base = self.eval(node.value, frame)
        if isinstance(base, ClassVal):
            return base  # Generic alias: InvokeConfig[P, R]
        if isinstance(base, ExtRef):
            return base
        idx = self.eval(node.slice, frame) if not isinstance(node.slice, ast.Slice) else Unknown("slice")
        if isinstance(base, DictVal) and isinstance(idx, Const):
            if idx.value in base.items:
                return base.items[idx.value]
            if not base.open:
                raise _Raise(Obj(None, builtin_cls="builtins.KeyError"), self.site(node))
        if isinstance(base, SeqVal) and isinstance(idx, Const) and isinstance(idx.value, int):
            try:
                return base.items[idx.value]
            except IndexError:
                raise _Raise(Obj(None, builtin_cls="builtins.IndexError"), self.site(node)) from None
        return Sym(f"{base.key()}[{idx.key()}]", None, parts=("SUBSCRIPT", base, node.slice))

    def e_Slice(self, node, frame):
        return Unknown("slice")

    def e_IfExp(self, node, frame):
        if self.nofork and not any(isinstance(n, ast.Call) for n in ast.walk(node)):
            return Unknown("ifexp")
        if self.truth(self.eval(node.test, frame)):
            return self.eval(node.body, frame)
        return self.eval(node.orelse, frame)

    def e_BoolOp(self, node, frame):
        if self.nofork and not any(isinstance(n, ast.Call) for n in ast.walk(node)):
            return Unknown("boolop")
        is_and = isinstance(node.op, ast.And)
        v: V = NONE
        for i, e in enumerate(node.values):
            v = self.eval(e, frame)
            if i == len(node.values) - 1:
                return v
            t = self.truth(v)
            if is_and and not t:
                if isinstance(v, Sym) and v.typ is not None and v.typ.optional and not v.typ.prim:
                    return NONE
                return v
            if not is_and and t:
                return v
        return v

    def e_UnaryOp(self, node, frame):
        v = self.eval(node.operand, frame)
        if isinstance(node.op, ast.Not):
            if self.nofork and not isinstance(v, Const):
                return Unknown("not")
            return Const(not self.truth(v))
        if isinstance(v, Const) and isinstance(v.value, (int, float)):
            if isinstance(node.op, ast.USub):
                return Const(-v.value)
            if isinstance(node.op, ast.UAdd):
                return Const(+v.value)
        return Sym(f"({type(node.op).__name__} {v.key()})")

    _BIN = {
        ast.Add: ("+", lambda a, b: a + b), ast.Sub: ("-", lambda a, b: a - b),
        ast.Mult: ("*", lambda a, b: a * b), ast.Div: ("/", lambda a, b: a / b),
        ast.FloorDiv: ("//", lambda a, b: a // b), ast.Mod: ("%", lambda a, b: a % b),
        ast.Pow: ("**", lambda a, b: a ** b), ast.BitOr: ("|", lambda a, b: a | b),
        ast.BitAnd: ("&", lambda a, b: a & b),
    }

    def e_BinOp(self, node, frame):
        l = self.eval(node.left, frame)
        r = self.eval(node.right, frame)
        return self.binop(type(node.op), l, r)

    def binop(self, op, l, r):
        sym, fn = self._BIN.get(op, (op.__name__, None))
        if isinstance(l, Const) and isinstance(r, Const) and fn is not None:
            try:
                return Const(fn(l.value, r.value))
            except Exception:  # noqa: BLE001
                return Unknown("binop-error")
        if op is ast.BitOr and isinstance(l, (ClassVal, ExtRef)) and isinstance(r, (ClassVal, ExtRef, Const)):
            return SeqVal("tuple", [l, r])  # X | Y in isinstance
        if op is ast.BitOr and isinstance(l, SeqVal) and isinstance(r, (ClassVal, ExtRef)):
            return SeqVal("tuple", [*l.items, r])
        typ = None
        lt = l.typ.prim if isinstance(l, Sym) and l.typ else (type(l.value).__name__ if isinstance(l, Const) else None)
        rt = r.typ.prim if isinstance(r, Sym) and r.typ else (type(r.value).__name__ if isinstance(r, Const) else None)
        if lt in ("int", "float") and rt in ("int", "float"):
            typ = TypeRef(prim="int" if lt == rt == "int" and sym != "/" else "float")
        return Sym(f"({l.key()} {sym} {r.key()})", typ, parts=("BINOP", sym, l, r))

    def e_Compare(self, node, frame):
        left = self.eval(node.left, frame)
        result = True
        for op, comp in zip(node.ops, node.comparators):
            right = self.eval(comp, frame)
            r = self.compare(op, left, right)
            if not r:
                result = False
                break
            left = right
        return Const(result)

    # ------------------------------------------------------------------ compare
    def concretize_enum(self, s: Sym, enum_fq: str) -> EnumVal:
        ci = self.prog.classes[enum_fq]
        names = list(ci.enum_members)
        c = self.decide(f"{s.k}=?{ci.name}", len(names), names)
        return EnumVal(enum_fq, names[c], ci.enum_members[names[c]])

    def _as_enum(self, v: V, other: V):
        """If v is symbolic and other is an EnumVal, concretize v."""
        if isinstance(v, Sym) and isinstance(other, EnumVal):
            sc = self.sym_class(v)
            if sc is None or sc.fq == other.cls_fq:
                if v.typ is not None and v.typ.optional and self.sym_is_none(v):
                    return NONE
                return self.concretize_enum(v, other.cls_fq)
        return v

    def compare(self, op, l: V, r: V) -> bool:
        if self.nofork and not (isinstance(l, (Const, EnumVal)) and isinstance(r, (Const, EnumVal))):
            # in no-fork mode comparisons on symbolic values stay undecided -> treat as opaque truthy
            return True
        if isinstance(op, (ast.Is, ast.IsNot, ast.Eq, ast.NotEq)):
            neg = isinstance(op, (ast.IsNot, ast.NotEq))
            res = self._equal(l, r, identity=isinstance(op, (ast.Is, ast.IsNot)))
            return (not res) if neg else res
        if isinstance(op, (ast.In, ast.NotIn)):
            res = self._contains(r, l)
            return (not res) if isinstance(op, ast.NotIn) else res
        sym = {ast.Lt: "<", ast.LtE: "<=", ast.Gt: ">", ast.GtE: ">="}[type(op)]
        if isinstance(l, Const) and isinstance(r, Const):
            try:
                return {"<": l.value < r.value, "<=": l.value <= r.value,
                        ">": l.value > r.value, ">=": l.value >= r.value}[sym]
            except TypeError:
                raise _Raise(Obj(None, builtin_cls="builtins.TypeError"), "") from None
        # consult the path condition for the complementary form first
        comp = {"<": ">=", "<=": ">", ">": "<=", ">=": "<"}[sym]
        ck = f"{l.key()} {comp} {r.key()}"
        if ck in self.memo:
            return self.memo[ck] != 0
        return self.decide_bool(f"{l.key()} {sym} {r.key()}")

    def _equal(self, l: V, r: V, identity: bool) -> bool:
        # None tests
        for a, b in ((l, r), (r, l)):
            if isinstance(b, Const) and b.value is None:
                if isinstance(a, Const):
                    return a.value is None
                if isinstance(a, Sym):
                    return self.sym_is_none(a)
                if isinstance(a, Unknown):
                    return self.decide_bool(f"?{a.n}:{a.reason} is None")
                return False
        l2 = self._as_enum(l, r)
        r2 = self._as_enum(r, l)
        l, r = l2, r2
        if isinstance(l, EnumVal) and isinstance(r, EnumVal):
            return l.cls_fq == r.cls_fq and l.name == r.name
        if isinstance(l, Const) and isinstance(r, Const):
            return (l.value is r.value) if identity and isinstance(l.value, (bool, type(None))) else l.value == r.value
        if isinstance(l, EnumVal) and isinstance(r, Const) or isinstance(r, EnumVal) and isinstance(l, Const):
            ev, cv = (l, r) if isinstance(l, EnumVal) else (r, l)
            ci = self.prog.classes.get(ev.cls_fq)
            if not identity and ci and ci.is_subclass_of("enum.StrEnum"):
                return ev.value == cv.value
            return False
        if isinstance(l, Obj) and isinstance(r, Obj):
            if l is r:
                return True
            if identity:
                return False
        if isinstance(l, ClassVal) and isinstance(r, ClassVal):
            return l.cls.fq == r.cls.fq
        if l.key() == r.key() and isinstance(l, Sym) and isinstance(r, Sym):
            return True
        # a strict order already established on this path excludes equality
        lk, rk = l.key(), r.key()
        for k in (f"{lk} < {rk}", f"{lk} > {rk}", f"{rk} < {lk}", f"{rk} > {lk}"):
            if self.memo.get(k) == 0:
                return False
        for k in (f"{lk} <= {rk}", f"{lk} >= {rk}", f"{rk} <= {lk}", f"{rk} >= {lk}"):
            if self.memo.get(k) == 1:
                return False
        a, b = sorted([lk, rk])
        return self.decide_bool(f"{a} {'is' if identity else '=='} {b}")

    def _contains(self, container: V, item: V) -> bool:
        if isinstance(container, SeqVal):
            if all(isinstance(i, EnumVal) for i in container.items) and container.items:
                item = self._as_enum(item, container.items[0])
            if isinstance(item, (EnumVal, Const)) and all(isinstance(i, (EnumVal, Const)) for i in container.items):
                return any(self._equal(item, i, identity=False) for i in container.items)
            if any(i is item for i in container.items):
                return True
            return self.decide_bool(f"{item.key()} in {container.key()}")
        if isinstance(container, DictVal) and isinstance(item, Const):
            if item.value in container.items:
                return True
            if not container.open:
                return False
        return self.decide_bool(f"{item.key()} in {container.key()}")

    # ------------------------------------------------------------------ attributes
    def getattr_v(self, base: V, attr: str, node=None) -> V:
        if isinstance(base, Obj):
            if attr in base.fields:
                return base.fields[attr]
            if base.cls is not None:
                if any(f.name == attr for f in base.cls.all_fields()):
                    # partially built model object (driver): unset dataclass field -> typed symbol
                    return Sym(f"{base.label or base.cls_name}.{attr}", self.inst_attr_types(base.cls).get(attr))
                r = self._class_member(base.cls, attr, base, base.label or f"{base.cls_name}#{base.oid}")
                if r is not None:
                    return r
                t = self.inst_attr_types(base.cls).get(attr)
                return Sym(f"{base.label or base.cls_name}.{attr}", t)
            if attr == "args":
                return SeqVal("tuple", base.args)
            return Sym(f"{base.key()}.{attr}")
        if isinstance(base, Sym):
            ci = self.sym_class(base)
            if ci is not None:
                if ci.is_enum and attr == "value":
                    kinds = {type(v).__name__ for v in ci.enum_members.values()}
                    return Sym(f"{base.k}.value", TypeRef(prim=kinds.pop()) if len(kinds) == 1 and kinds <= {"str", "int"} else None)
                types = self.inst_attr_types(ci)
                if attr in types and ci.find_method(attr) is None:
                    return Sym(f"{base.k}.{attr}", types[attr])
                r = self._class_member(ci, attr, base, base.k)
                if r is not None:
                    return r
                return Sym(f"{base.k}.{attr}")
            if base.typ is not None and base.typ.prim and base.typ.prim.startswith("ext:"):
                return BoundExt(base, attr)
            if base.parts and base.parts[0] == "TYPE" and attr == "__name__":
                return Sym(f"{base.k}.__name__", TypeRef(prim="str"))
            if base.typ is None or base.typ.prim in (None, "callable", "mixed"):
                # unknown receiver: data attribute or method - decided at call time
                return Sym(f"{base.k}.{attr}", None, parts=("ATTR", base, attr))
            return BoundExt(base, attr)
        if isinstance(base, ClassVal):
            ci = base.cls
            if ci.is_enum and attr in ci.enum_members:
                return EnumVal(ci.fq, attr, ci.enum_members[attr])
            fn = ci.find_method(attr)
            if fn is not None:
                if fn.kind == "classmethod":
                    return FuncVal(fn, bound_cls=ci)
                return FuncVal(fn)
            ca = ci.find_class_attr(attr)
            if ca is not None:
                owner, expr = ca
                return self._eval_in_module(owner.module, expr)
            if attr == "__name__":
                return Const(ci.name)
            return Sym(f"{ci.name}.{attr}")
        if isinstance(base, EnumVal):
            if attr == "value":
                return Const(base.value)
            if attr == "name":
                return Const(base.name)
            ci = self.prog.classes.get(base.cls_fq)
            if ci is not None:
                r = self._class_member(ci, attr, base, base.key())
                if r is not None:
                    return r
            return Unknown(f"enumattr:{attr}")
        if isinstance(base, ExtRef):
            fq = f"{base.fq}.{attr}"
            if base.fq in self.prog.modules:
                return self.module_name(self.prog.modules[base.fq], attr)
            return ExtRef(fq)
        if isinstance(base, SuperVal):
            mro = base.self_val.cls.mro() if isinstance(base.self_val, Obj) and base.self_val.cls else base.cls.mro()
            names = [c.fq for c in mro]
            start = names.index(base.cls.fq) + 1 if base.cls.fq in names else 0
            for c in mro[start:]:
                if attr in c.methods:
                    return FuncVal(c.methods[attr], self_val=base.self_val)
            return BoundExt(base.self_val, f"super.{attr}")
        if isinstance(base, SpecialObj):
            if attr in base.attrs:
                return base.attrs[attr]
            if attr in base.methods:
                return BoundSpecial(base.methods[attr], f"{base.label}.{attr}")
            return Sym(f"{base.label}.{attr}")
        if isinstance(base, (DictVal, SeqVal, Const, FuncVal, UserFn, BoundExt)):
            if isinstance(base, FuncVal) and attr == "__name__":
                return Const(base.fn.name)
            if isinstance(base, Const) and base.value is None and not attr.startswith("__"):
                # None has no such attribute: the statement ends with AttributeError (a drain that wakes a fire-and-forget item's missing event, mutscan 4)
                raise _Raise(Obj(None, builtin_cls="builtins.AttributeError", label=f"AttributeError@None.{attr}"), self.site(node))
            return BoundExt(base, attr)
        if isinstance(base, AbstractExc):
            ci = self.prog.classes.get(base.base_fq)
            if ci is not None:
                types = self.inst_attr_types(ci)
                if attr in types and ci.find_method(attr) is None:
                    return Sym(f"{base.label}.{attr}", types[attr])
                r = self._class_member(ci, attr, base, base.label)
                if r is not None:
                    return r
            return Sym(f"{base.key()}.{attr}")
        if isinstance(base, Unknown):
            return Unknown(f"{base.reason}.{attr}")
        return Unknown(f"attr:{attr}")

    def _class_member(self, ci: ClassInfo, attr: str, self_val: V, self_key: str):
        fn = ci.find_method(attr)
        if fn is not None:
            if fn.kind == "property":
                return self.call_function(fn, self_val, [], {}, None, None, fn.node)
            if fn.kind == "classmethod":
                return FuncVal(fn, bound_cls=ci)
            if fn.kind == "staticmethod":
                return FuncVal(fn)
            return FuncVal(fn, self_val=self_val)
        ca = ci.find_class_attr(attr)
        if ca is not None:
            owner, expr = ca
            # dataclass field(default_factory=...) handled at construction
            if isinstance(expr, ast.Call) and getattr(expr.func, "id", "") == "field":
                return None
            return self._eval_in_module(owner.module, expr)
        return None

    def _eval_in_module(self, m: Module, expr: ast.expr) -> V:
        fr = Frame(None, m, {})
        self.site_stack.append(f"{m.relpath}:<module>")
        try:
            return self.eval(expr, fr)
        finally:
            self.site_stack.pop()

    # ------------------------------------------------------------------ calls
    def e_Call(self, node: ast.Call, frame: Frame) -> V:
        # builtins handled syntactically
        if isinstance(node.func, ast.Name) and frame.lookup(node.func.id) is None \
                and node.func.id not in frame.module.classes and node.func.id not in frame.module.functions \
                and node.func.id not in frame.module.imports and node.func.id not in frame.module.globals:
            b = getattr(self, "b_" + node.func.id, None)
            if b is not None:
                return b(node, frame)
        callee = self.eval(node.func, frame)
        args, kwargs = self.eval_args(node, frame, callee)
        return self.call_value(callee, args, kwargs, node)

    def eval_args(self, node: ast.Call, frame: Frame, callee: V | None = None):
        opaque = isinstance(callee, (Unknown,)) or (
            isinstance(callee, BoundExt) and isinstance(callee.recv, (Unknown, Sym)) and self._is_logging(callee)
        )
        if opaque:
            self.nofork += 1
        try:
            args: list[V] = []
            for a in node.args:
                if isinstance(a, ast.Starred):
                    v = self.eval(a.value, frame)
                    if isinstance(v, SeqVal):
                        args.extend(v.items)
                    else:
                        args.append(Unknown("*args"))
                else:
                    args.append(self.eval(a, frame))
            kwargs: dict[str, V] = {}
            for kw in node.keywords:
                if kw.arg is None:
                    v = self.eval(kw.value, frame)
                    if isinstance(v, DictVal):
                        for k, vv in v.items.items():
                            if isinstance(k, str):
                                kwargs[k] = vv
                    else:
                        kwargs["**"] = v
                else:
                    kwargs[kw.arg] = self.eval(kw.value, frame)
            return args, kwargs
        finally:
            if opaque:
                self.nofork -= 1

    @staticmethod
    def _same_const(a, b) -> bool:
        return isinstance(a, Const) and isinstance(b, Const) and type(a.value) is type(b.value) and a.value == b.value

    @staticmethod
    def _is_logging(b: BoundExt) -> bool:
        if b.attr not in ("debug", "info", "warning", "error", "exception", "critical", "log"):
            return False
        r = b.recv
        if isinstance(r, Unknown):
            return True
        if isinstance(r, Sym):
            if r.parts and r.parts[0] == "EXTCALL" and r.parts[1] == "logging.getLogger":
                return True
            return r.k.endswith(".logger")
        return False

    def call_value(self, callee: V, args: list[V], kwargs: dict[str, V], node) -> V:
        if isinstance(callee, FuncVal):
            return self.call_funcval(callee, args, kwargs, node)
        if isinstance(callee, ClassVal):
            return self.construct(callee.cls, args, kwargs, node)
        if isinstance(callee, UserFn):
            return self.user_call(callee.label, callee.ret, args, kwargs, node)
        if isinstance(callee, BoundSpecial):
            return callee.fn(self, args, kwargs, node)
        if isinstance(callee, BoundExt):
            return self.ext_method_call(callee, args, kwargs, node)
        if isinstance(callee, ExtRef):
            return self.ext_call(callee, args, kwargs, node)
        if isinstance(callee, Obj) and callee.cls is not None:
            fn = callee.cls.find_method("__call__")
            if fn is not None:
                return self.call_function(fn, callee, args, kwargs, None, None, node)
            return Unknown("call-obj")
        if isinstance(callee, Sym):
            ci = self.sym_class(callee)
            if ci is not None:
                fn = ci.find_method("__call__")
                if fn is not None and not _is_stub(fn):
                    return self.call_function(fn, callee, args, kwargs, None, None, node)
            if callee.parts and callee.parts[0] == "ATTR":
                # method on an untyped receiver: class-hierarchy fallback - a name that exactly one SDK class defines as a method
                owner = self._unique_method_owner(callee.parts[2])
                if owner is not None:
                    recv = callee.parts[1]
                    typed = Sym(recv.k, TypeRef(classes=(owner.fq,))) if isinstance(recv, Sym) else recv
                    return self.call_funcval(FuncVal(owner.find_method(callee.parts[2]), self_val=typed), args, kwargs, node)
                return self.ext_method_call(BoundExt(callee.parts[1], callee.parts[2]), args, kwargs, node)
            ret = callee.typ.ret if callee.typ is not None else None
            return self.user_call(callee.k, ret, args, kwargs, node)
        if isinstance(callee, Unknown):
            return Unknown(f"call:{callee.reason}")
        if isinstance(callee, SeqVal):
            return Unknown("call-seq")
        return Unknown("call")

    _GENERIC_METHOD_NAMES = frozenset("""get put set wait clear add append extend update items keys values copy pop discard remove close
        result cancel cancelled done submit shutdown join start run acquire release encode decode format strip split lower upper
        serialize deserialize execute process to_dict from_dict to_json_dict from_json_dict""".split())

    def _unique_method_owner(self, name: str):
        if name.startswith("__") or name in self._GENERIC_METHOD_NAMES:
            return None
        cache = self.prog.__dict__.setdefault("_unique_method_cache", {})
        if name not in cache:
            owners = [ci for ci in self.prog.classes.values() if name in ci.methods and ci.methods[name].kind not in ("staticmethod", "classmethod", "property")]
            # a method overridden along one hierarchy still counts as one owner (the root)
            roots = [ci for ci in owners if not any(o is not ci and self.prog.is_subclass(ci.fq, o.fq) for o in owners)]
            cache[name] = roots[0] if len(roots) == 1 and len(owners) == 1 else None
        return cache[name]

    def call_funcval(self, fv: FuncVal, args, kwargs, node) -> V:
        fn = fv.fn
        hook = self.cfg.hooks.get(fn.fq)
        if hook is not None:
            r = hook(self, fn, fv.self_val, args, kwargs, node)
            if r is not NotImplemented:
                return r
        if fn.module.short() in self.cfg.opaque_modules:
            ret = parse_annotation(self.prog, fn.module, getattr(fn.node, "returns", None))
            self.emit("OPAQUE", node, fn=fn.qualname, args=[a.key() for a in args],
                      kwargs={k: v.key() for k, v in kwargs.items()})
            return Sym(self.fresh(f"ret:{fn.qualname}"), ret)
        if _is_stub(fn):
            # Protocol / abstract stub: behaves like an external method
            if fv.self_val is not None:
                r = self.ext_method_call(BoundExt(fv.self_val, fn.name), args, kwargs, node)
                ret = parse_annotation(self.prog, fn.module, getattr(fn.node, "returns", None))
                if isinstance(r, Sym) and ret is not None:
                    return Sym(r.k, ret, parts=r.parts)
                return r
            return Unknown(f"stub:{fn.qualname}")
        return self.call_function(fn, fv.self_val, args, kwargs, fv.closure, fv.bound_cls, node)

    @staticmethod
    def _is_generator_cm(fn: FuncInfo) -> bool:
        return not isinstance(fn.node, ast.Lambda) and any(ast.unparse(d).split(".")[-1] == "contextmanager" for d in fn.node.decorator_list)

    def call_function(self, fn: FuncInfo, self_val, args, kwargs, closure, bound_cls, node, yield_action=None) -> V:
        if self.depth >= self.cfg.max_depth:
            raise AnalysisError(f"call depth exceeded at {fn.fq}")
        if yield_action is None and self._is_generator_cm(fn):
            return GenCM(fn, self_val, list(args), dict(kwargs), closure, bound_cls)
        a = fn.node.args
        params = [p.arg for p in a.posonlyargs + a.args]
        locals_: dict[str, V] = {}
        pos = list(args)
        if fn.kind in ("method", "property") and fn.cls is not None:
            if self_val is not None:
                pos = [self_val, *pos]
        elif fn.kind == "classmethod":
            pos = [ClassVal(bound_cls or fn.cls), *pos]
        defaults = a.defaults
        n_req = len(params) - len(defaults)
        for i, p in enumerate(params):
            if i < len(pos):
                locals_[p] = pos[i]
            elif p in kwargs:
                locals_[p] = kwargs[p]
            elif i >= n_req:
                locals_[p] = self._eval_in_module(fn.module, defaults[i - n_req])
            else:
                locals_[p] = self._param_sym(fn, p, a)
        if a.vararg:
            locals_[a.vararg.arg] = SeqVal("tuple", pos[len(params):])
        for p, d in zip(a.kwonlyargs, a.kw_defaults):
            if p.arg in kwargs:
                locals_[p.arg] = kwargs[p.arg]
            elif d is not None:
                locals_[p.arg] = self._eval_in_module(fn.module, d)
            else:
                locals_[p.arg] = self._param_sym(fn, p.arg, a)
        if a.kwarg:
            known = set(params) | {p.arg for p in a.kwonlyargs}
            locals_[a.kwarg.arg] = DictVal({k: v for k, v in kwargs.items() if k not in known})
        cls = fn.cls
        if cls is None and closure is not None:
            cls = closure.cls
        sv = self_val if fn.cls is not None else (closure.self_val if closure is not None else None)
        frame = Frame(fn, fn.module, locals_, closure=closure, cls=cls, self_val=sv)
        frame.yield_action = yield_action
        self.depth += 1
        self.site_stack.append(f"{fn.module.relpath}:{fn.qualname}")
        try:
            if isinstance(fn.node, ast.Lambda):
                return self.eval(fn.node.body, frame)
            try:
                self.exec_block(fn.node.body, frame)
            except _Return as r:
                return r.value
            return NONE
        finally:
            self.site_stack.pop()
            self.depth -= 1

    def _param_sym(self, fn: FuncInfo, name: str, a: ast.arguments) -> V:
        for p in a.posonlyargs + a.args + a.kwonlyargs:
            if p.arg == name:
                return Sym(f"param:{fn.qualname}.{name}", parse_annotation(self.prog, fn.module, p.annotation))
        return Unknown(f"param:{name}")

    # -- construction ----------------------------------------------------
    def construct(self, ci: ClassInfo, args, kwargs, node) -> V:
        if ci.is_enum:
            if len(args) == 1 and isinstance(args[0], Const):
                for n, val in ci.enum_members.items():
                    if val == args[0].value:
                        return EnumVal(ci.fq, n, val)
                raise _Raise(Obj(None, builtin_cls="builtins.ValueError"), self.site(node))
            src = args[0].key() if args else "?"
            return Sym(f"{ci.name}({src})", TypeRef(classes=(ci.fq,)))
        obj = Obj(ci)
        init = ci.find_method("__init__")
        if init is not None:
            self.call_function(init, obj, args, kwargs, None, None, node)
            return obj
        if any(c.is_dataclass for c in ci.mro()):
            flds = ci.all_fields()
            for i, f in enumerate(flds):
                if i < len(args):
                    obj.fields[f.name] = args[i]
                elif f.name in kwargs:
                    obj.fields[f.name] = kwargs[f.name]
                elif f.default is not None:
                    owner = next(c for c in ci.mro() if any(x is f for x in c.fields))
                    obj.fields[f.name] = self._eval_in_module(owner.module, f.default)
                elif f.default_factory is not None:
                    owner = next(c for c in ci.mro() if any(x is f for x in c.fields))
                    fac = self._eval_in_module(owner.module, f.default_factory)
                    obj.fields[f.name] = self.call_value(fac, [], {}, node)
                else:
                    raise _Raise(Obj(None, builtin_cls="builtins.TypeError"), self.site(node))
            post = ci.find_method("__post_init__")
            if post is not None:
                self.call_function(post, obj, [], {}, None, None, node)
            return obj
        obj.args = list(args)
        for k, v in kwargs.items():
            obj.fields[k] = v
        return obj

    # -- user callables ----------------------------------------------------
    def user_call(self, label: str, ret: TypeRef | None, args, kwargs, node) -> V:
        n = sum(1 for e in self.events if e.kind == "USER" and e.data["label"] == label) + 1
        ev = self.emit("USER", node, label=label, args=[a.key() for a in args],
                       kwargs={k: v.key() for k, v in kwargs.items()}, n=n, arg_values=list(args))
        specs = None
        for suffix, lst in (self.cfg.user_raises or {}).items():
            if label.endswith(suffix):
                specs = lst
                break
        if specs is None:
            specs = self.cfg.default_user_raises
        options = ["return", *specs]
        c = self.decide(f"USER({label})#{n} outcome", len(options), options)
        ev.data["outcome"] = options[c]
        if c == 0:
            return Sym(f"ret:{label}#{n}", ret)
        spec = options[c]
        raise _Raise(self.make_exc(spec, f"{label}#{n}"), self.site(node))

    def make_exc(self, spec: str, label: str) -> V:
        if spec.endswith("*"):
            return AbstractExc(spec[:-1], label)
        if spec in self.prog.classes:
            o = Obj(self.prog.classes[spec], label=f"{spec.rsplit('.', 1)[1]}@{label}")
            return o
        return Obj(None, builtin_cls=spec, label=f"{spec.rsplit('.', 1)[-1]}@{label}")

    # -- external calls ------------------------------------------------------
    def ext_call(self, callee: ExtRef, args, kwargs, node) -> V:
        h = (self.cfg.ext_calls or {}).get(callee.fq)
        if h is not None:
            return h(self, args, kwargs, node)
        short = callee.fq
        if short.startswith("builtins."):
            name = short[9:]
            obj = getattr(builtins, name, None)
            if isinstance(obj, type) and issubclass(obj, BaseException):
                o = Obj(None, builtin_cls=short)
                o.args = list(args)
                return o
        return Sym(self.fresh(f"{short}()"), TypeRef(prim=f"ext:{short}"), parts=("EXTCALL", short, tuple(args)))

    def ext_method_call(self, b: BoundExt, args, kwargs, node) -> V:
        recv = b.recv
        hooks = self.cfg.ext_method_hooks or {}
        if b.attr in hooks:
            r = hooks[b.attr](self, recv, args, kwargs, node)
            if r is not NotImplemented:
                return r
        # concrete containers
        if isinstance(recv, DictVal):
            if b.attr == "get":
                k = args[0] if args else NONE
                d = args[1] if len(args) > 1 else NONE
                if isinstance(k, Const) and k.value in recv.items:
                    return recv.items[k.value]
                if isinstance(k, Const) and not recv.open:
                    return d
                return Sym(f"{recv.key()}.get({k.key()})")
            if b.attr == "items":
                return SeqVal("list", [SeqVal("tuple", [Const(k), v]) for k, v in recv.items.items()])
            if b.attr in ("keys",):
                return SeqVal("list", [Const(k) for k in recv.items])
            if b.attr == "values":
                return SeqVal("list", list(recv.items.values()))
            if b.attr == "setdefault" and args and isinstance(args[0], Const) and not recv.open:
                if args[0].value not in recv.items:
                    recv.items[args[0].value] = args[1] if len(args) > 1 else NONE
                return recv.items[args[0].value]
            if b.attr == "pop" and args and isinstance(args[0], Const) and not recv.open and (args[0].value in recv.items or len(args) > 1):
                return recv.items.pop(args[0].value) if args[0].value in recv.items else args[1]
            if b.attr in ("update", "setdefault", "pop", "clear"):
                recv.open = True
                return Unknown("dictop")
            if b.attr == "copy":
                d2 = DictVal(dict(recv.items))
                d2.open = recv.open
                return d2
        if isinstance(recv, SeqVal):
            if b.attr == "append" and args:
                recv.items.append(args[0])
                return NONE
            if b.attr == "extend" and args and isinstance(args[0], SeqVal):
                recv.items.extend(args[0].items)
                return NONE
            if b.attr == "copy":
                return SeqVal(recv.kind, list(recv.items))
            if b.attr == "add" and args:
                if not any(self._same_const(args[0], x) for x in recv.items):
                    recv.items.append(args[0])
                return NONE
            if b.attr == "update" and recv.kind == "set" and len(args) == 1 and isinstance(args[0], SeqVal):
                for x in args[0].items:
                    if not any(self._same_const(x, y) for y in recv.items):
                        recv.items.append(x)
                return NONE
            if b.attr in ("issubset", "issuperset") and len(args) == 1 and isinstance(args[0], SeqVal) \
                    and all(isinstance(x, Const) for x in [*recv.items, *args[0].items]):
                a_, b_ = {x.value for x in recv.items}, {x.value for x in args[0].items}
                return Const(a_ <= b_ if b.attr == "issubset" else a_ >= b_)
            if b.attr == "discard" and args and isinstance(args[0], Const):
                recv.items[:] = [x for x in recv.items if not self._same_const(args[0], x)]
                return NONE
            if b.attr == "pop" and recv.items and (recv.kind != "list" or not args):
                return recv.items.pop()
        if self._is_logging(b):
            return NONE
        if b.attr.startswith("super."):
            if b.attr == "super.__init__" and isinstance(recv, Obj):
                recv.args = list(args)
            return NONE
        if isinstance(recv, Sym) and b.attr in _MUTATORS:
            # the receiver is an external mutable object: what this path learnt about it no longer holds
            rk = recv.key()
            for k in [k for k in self.memo if rk in k]:
                del self.memo[k]
        if b.attr == "wait" and isinstance(recv, Sym):
            # blocking point: other threads run; what this path knew about shared private fields is stale
            for k in [k for k in self.memo if "._" in k]:
                del self.memo[k]
        if isinstance(recv, (Sym, Obj, AbstractExc, SpecialObj)) and self.cfg.record_ext:
            self.emit("EXT", node, recv=recv.key(), method=b.attr, args=[a.key() for a in args],
                      kwargs={k: v.key() for k, v in kwargs.items()}, arg_values=list(args), kwarg_values=dict(kwargs))
        if isinstance(recv, Const) and isinstance(recv.value, str):
            try:
                if all(isinstance(a, Const) for a in args) and b.attr in ("strip", "startswith", "endswith", "lower", "upper", "encode"):
                    return Const(getattr(recv.value, b.attr)(*[a.value for a in args]))
            except Exception:  # noqa: BLE001
                pass
        return Sym(self.fresh(f"{recv.key()}.{b.attr}()"), None)

    # ------------------------------------------------------------------ builtins
    def b_super(self, node, frame):
        if frame.cls is None or frame.self_val is None:
            return Unknown("super")
        return SuperVal(frame.cls, frame.self_val)

    def b_isinstance(self, node, frame):
        v = self.eval(node.args[0], frame)
        c = self.eval(node.args[1], frame)
        if self.nofork:
            return Unknown("isinstance")
        return Const(self.isinstance_v(v, c))

    def b_len(self, node, frame):
        v = self.eval(node.args[0], frame)
        if isinstance(v, SeqVal):
            return Const(len(v.items))
        if isinstance(v, DictVal) and not v.open:
            return Const(len(v.items))
        if isinstance(v, Const) and isinstance(v.value, (str, bytes)):
            return Const(len(v.value))
        return Sym(f"len({v.key()})", TypeRef(prim="int"), parts=("LEN", v))

    def b_str(self, node, frame):
        if not node.args:
            return Const("")
        v = self.eval(node.args[0], frame)
        if isinstance(v, Const):
            return Const(str(v.value))
        return Sym(f"str({v.key()})", TypeRef(prim="str"), parts=("STR", v))

    def b_int(self, node, frame):
        v = self.eval(node.args[0], frame) if node.args else Const(0)
        if isinstance(v, Const):
            try:
                return Const(int(v.value))
            except Exception:  # noqa: BLE001
                return Unknown("int")
        return Sym(f"int({v.key()})", TypeRef(prim="int"))

    def b_float(self, node, frame):
        v = self.eval(node.args[0], frame) if node.args else Const(0.0)
        if isinstance(v, Const):
            try:
                return Const(float(v.value))
            except Exception:  # noqa: BLE001
                return Unknown("float")
        return Sym(f"float({v.key()})", TypeRef(prim="float"))

    def b_tuple(self, node, frame):
        return self._seq_ctor(node, frame, "tuple")

    def b_list(self, node, frame):
        return self._seq_ctor(node, frame, "list")

    def _seq_ctor(self, node, frame, kind):
        if not node.args:
            return SeqVal(kind, [])
        v = self.eval(node.args[0], frame)
        if isinstance(v, SeqVal):
            return SeqVal(kind, list(v.items))
        return Sym(f"{kind}({v.key()})", TypeRef(prim=f"ext:builtins.{kind}"))

    def b_zip(self, node, frame):
        vals = [self.eval(a, frame) for a in node.args]
        if vals and all(isinstance(v, SeqVal) for v in vals):
            n = min(len(v.items) for v in vals)
            return SeqVal("list", [SeqVal("tuple", [v.items[i] for v in vals]) for i in range(n)])
        return Sym(f"zip({','.join(v.key() for v in vals)})")

    def b_enumerate(self, node, frame):
        v = self.eval(node.args[0], frame)
        if isinstance(v, SeqVal):
            return SeqVal("list", [SeqVal("tuple", [Const(i), x]) for i, x in enumerate(v.items)])
        return Sym(f"enumerate({v.key()})")

    def b_reversed(self, node, frame):
        v = self.eval(node.args[0], frame)
        if isinstance(v, SeqVal):
            return SeqVal("list", list(reversed(v.items)))
        return Sym(f"reversed({v.key()})")

    def b_all(self, node, frame):
        v = self.eval(node.args[0], frame)
        if isinstance(v, SeqVal) and all(isinstance(i, Const) for i in v.items):
            return Const(all(i.value for i in v.items))
        return Const(self.decide_bool(f"all({v.key()})"))

    def b_bytes(self, node, frame):
        v = self.eval(node.args[0], frame) if node.args else Const(b"")
        return Sym(f"bytes({v.key()})", TypeRef(prim="bytes"))

    def b_bool(self, node, frame):
        v = self.eval(node.args[0], frame) if node.args else FALSE
        return Const(self.truth(v))

    def b_type(self, node, frame):
        v = self.eval(node.args[0], frame)
        if isinstance(v, Obj) and v.cls is not None:
            return ClassVal(v.cls)
        return Sym(f"type({v.key()})", None, parts=("TYPE", v))

    def b_getattr(self, node, frame):
        o = self.eval(node.args[0], frame)
        n = self.eval(node.args[1], frame)
        d = self.eval(node.args[2], frame) if len(node.args) > 2 else None
        if isinstance(n, Const) and isinstance(n.value, str):
            if isinstance(o, Obj) and o.cls is not None:
                known = n.value in o.fields or o.cls.find_method(n.value) or n.value in self.inst_attr_types(o.cls) \
                    or o.cls.find_class_attr(n.value)
                if known:
                    return self.getattr_v(o, n.value, node)
                return d if d is not None else Unknown("getattr")
            if isinstance(o, Const) and o.value is None and d is not None:
                return d
            if isinstance(o, Sym):
                ci = self.sym_class(o)
                if ci is not None and (n.value in self.inst_attr_types(ci) or ci.find_method(n.value)):
                    if o.typ.optional and d is not None and self.sym_is_none(o):
                        return d
                    return self.getattr_v(o, n.value, node)
                return Sym(f"getattr({o.key()},{n.value!r})")
        return Unknown("getattr")

    def b_max(self, node, frame):
        return self._minmax(node, frame, max, "max")

    def b_min(self, node, frame):
        return self._minmax(node, frame, min, "min")

    def _minmax(self, node, frame, fn, name):
        vals = [self.eval(a, frame) for a in node.args]
        if vals and all(isinstance(v, Const) for v in vals):
            try:
                return Const(fn(*[v.value for v in vals]))
            except Exception:  # noqa: BLE001
                pass
        return Sym(f"{name}({','.join(v.key() for v in vals)})", TypeRef(prim="int"), parts=(name.upper(), tuple(vals)))

    def isinstance_v(self, v: V, c: V) -> bool:
        if isinstance(c, SeqVal):
            return any(self.isinstance_v(v, x) for x in c.items)
        if isinstance(c, ClassVal):
            target = c.cls.fq
        elif isinstance(c, ExtRef):
            target = c.fq
        else:
            return self.decide_bool(f"isinstance({v.key()},{c.key()})")
        return self.exc_matches(v, target, ctx="isinstance")

    # -- class membership of a value (shared by isinstance and except) -------
    def exc_matches(self, v: V, target: str, ctx: str = "except") -> bool:
        p = self.prog
        if isinstance(v, Obj):
            return self._is_sub(v.cls_fq, target)
        if isinstance(v, AbstractExc):
            if self._is_sub(v.base_fq, target):
                return True
            if any(self._is_sub(target, x) for x in v.excluded):
                return False
            if self._is_sub(target, v.base_fq):
                k = f"{v.key()} isa {target.rsplit('.', 1)[-1]}"
                if self.decide_bool(k):
                    v.base_fq = target
                    return True
                v.excluded = (*v.excluded, target)
                return False
            return False
        if isinstance(v, Const):
            tname = target.rsplit(".", 1)[-1]
            t = getattr(builtins, tname, None) if target.startswith("builtins.") else None
            if isinstance(t, type):
                return isinstance(v.value, t)
            return False
        if isinstance(v, EnumVal):
            return self._is_sub(v.cls_fq, target)
        if isinstance(v, SeqVal):
            return target == f"builtins.{v.kind}"
        if isinstance(v, DictVal):
            return target in ("builtins.dict",)
        if isinstance(v, Sym):
            t = v.typ
            if t is not None and t.classes and not t.prim:
                if all(self._is_sub(cq, target) for cq in t.classes):
                    if t.optional and self.sym_is_none(v):
                        return False
                    return True
                if not any(self._is_sub(target, cq) for cq in t.classes):
                    return False
            if t is not None and t.prim in ("int", "str", "bool", "float", "bytes") and target in self.prog.classes:
                return False
            if t is not None and t.prim and t.prim.startswith("ext:") and _ext_class(t.prim[4:]) is not None and target in self.prog.classes:
                return False
            if t is not None and t.prim == "bytes":
                t = TypeRef(prim="ext:builtins.bytes", optional=t.optional)
            if t is not None and t.prim and t.prim.startswith("ext:"):
                a_fq = t.prim[4:]
                if _ext_class(a_fq) is not None and _ext_class(target) is not None:
                    return self._is_sub(a_fq, target) and not (t.optional and self.sym_is_none(v))
                if a_fq == target:
                    return True
            if t is not None and t.prim in ("int", "str", "bool", "float") and target.startswith("builtins."):
                tn = target[9:]
                if tn == t.prim or (tn == "int" and t.prim == "bool"):
                    return not (t.optional and self.sym_is_none(v))
                if tn in ("int", "str", "bool", "float", "list", "dict", "tuple", "set"):
                    return False
        return self.decide_bool(f"{v.key()} isa {target.rsplit('.', 1)[-1]}")

    def _is_sub(self, a: str, b: str) -> bool:
        if a == b:
            return True
        if self.prog.is_subclass(a, b):
            return True
        if a in self.prog.classes:
            return False
        ca, cb = _ext_class(a), _ext_class(b)
        if ca is not None and cb is not None:
            return issubclass(ca, cb)
        return False

    # ------------------------------------------------------------------ statements
    def exec_block(self, stmts, frame: Frame):
        for st in stmts:
            self.steps += 1
            if self.steps > self.cfg.max_steps:
                raise AnalysisError("step budget exceeded")
            m = getattr(self, "s_" + type(st).__name__, None)
            if m is None:
                raise AnalysisError(f"unsupported statement {type(st).__name__} at {self.site(st)}")
            m(st, frame)

    def s_Expr(self, st, frame):
        if isinstance(st.value, ast.Constant):
            return
        self.eval(st.value, frame)

    def s_Pass(self, st, frame):
        pass

    def s_Import(self, st, frame):
        for a in st.names:
            frame.locals[a.asname or a.name.split(".")[0]] = ExtRef(a.name if a.asname else a.name.split(".")[0])

    def s_ImportFrom(self, st, frame):
        for a in st.names:
            frame.locals[a.asname or a.name] = self.resolve_fq(f"{st.module}.{a.name}")

    def s_Global(self, st, frame):
        pass

    def s_Nonlocal(self, st, frame):
        frame.locals.setdefault("__nonlocal__", SeqVal("set", []))
        for n in st.names:
            frame.locals["__nonlocal__"].items.append(Const(n))

    def s_Assert(self, st, frame):
        self.eval(st.test, frame)

    def s_Delete(self, st, frame):
        for t in st.targets:
            if isinstance(t, ast.Name):
                frame.locals.pop(t.id, None)
            else:
                self.emit("DEL", st, target=ast.unparse(t))

    def s_FunctionDef(self, st, frame):
        fi = self.func_by_node.get(id(st))
        if fi is None:
            fi = FuncInfo(st.name, st.name, frame.module, st)
        frame.locals[st.name] = FuncVal(fi, closure=frame)

    def s_ClassDef(self, st, frame):
        raise AnalysisError(f"nested class definition at {self.site(st)}")

    def s_Return(self, st, frame):
        raise _Return(self.eval(st.value, frame) if st.value is not None else NONE)

    def s_Raise(self, st, frame):
        if st.exc is None:
            if not self.exc_stack:
                raise _Raise(Obj(None, builtin_cls="builtins.RuntimeError"), self.site(st))
            raise _Raise(self.exc_stack[-1], self.site(st), origin="reraise")
        v = self.eval(st.exc, frame)
        if st.cause is not None:
            self.eval(st.cause, frame)
        if isinstance(v, ClassVal):
            v = self.construct(v.cls, [], {}, st)
        if isinstance(v, ExtRef):
            v = Obj(None, builtin_cls=v.fq)
        origin = "reraise" if any(v is e for e in self.exc_stack) else "new"
        raise _Raise(v, self.site(st), origin=origin)

    def s_Assign(self, st, frame):
        v = self.eval(st.value, frame)
        for t in st.targets:
            self.assign(t, v, frame, st)

    def s_AnnAssign(self, st, frame):
        if st.value is None:
            return
        v = self.eval(st.value, frame)
        self.assign(st.target, v, frame, st)

    def s_AugAssign(self, st, frame):
        cur = self.eval(_load(st.target), frame)
        v = self.binop(type(st.op), cur, self.eval(st.value, frame))
        self.assign(st.target, v, frame, st)

    def assign(self, target, v: V, frame: Frame, st):
        if isinstance(target, ast.Name):
            nl = frame.locals.get("__nonlocal__")
            if nl is not None and any(c.value == target.id for c in nl.items):
                if frame.assign_nonlocal(target.id, v):
                    return
            frame.locals[target.id] = v
        elif isinstance(target, ast.Attribute):
            base = self.eval(target.value, frame)
            if isinstance(base, Obj):
                base.fields[target.attr] = v
                if isinstance(v, Obj) and not v.label and base.label:
                    v.label = f"{base.label}.{target.attr}"
                if self.cfg.record_ext and base.label:
                    self.emit("SETATTR", st, recv=base.key(), attr=target.attr, value=v.key(), value_v=v)
            elif isinstance(base, (Sym, SpecialObj)):
                self.emit("SETATTR", st, recv=base.key(), attr=target.attr, value=v.key(), value_v=v)
            # function attributes etc.: ignored
        elif isinstance(target, ast.Subscript):
            base = self.eval(target.value, frame)
            idx = self.eval(target.slice, frame)
            if isinstance(base, DictVal) and isinstance(idx, Const):
                base.items[idx.value] = v
            elif isinstance(base, DictVal):
                base.open = True
                base.items[f"<{idx.key()}>"] = v
            else:
                self.emit("SETITEM", st, recv=base.key(), index=idx.key(), value=v.key())
        elif isinstance(target, (ast.Tuple, ast.List)):
            if isinstance(v, SeqVal) and len(v.items) == len(target.elts):
                for t, item in zip(target.elts, v.items):
                    self.assign(t, item, frame, st)
            else:
                for i, t in enumerate(target.elts):
                    self.assign(t, Sym(f"{v.key()}[{i}]"), frame, st)
        elif isinstance(target, ast.Starred):
            self.assign(target.value, Unknown("starred"), frame, st)
        else:
            raise AnalysisError(f"unsupported assignment target at {self.site(st)}")

    def s_If(self, st, frame):
        if self.truth(self.eval(st.test, frame)):
            self.exec_block(st.body, frame)
        else:
            self.exec_block(st.orelse, frame)

    def s_While(self, st, frame):
        it = 0
        while True:
            if not self.truth(self.eval(st.test, frame)):
                self.exec_block(st.orelse, frame)
                return
            if it >= self.cfg.while_iters:
                self.emit("LOOP_CUT", st, what="while")
                return
            it += 1
            try:
                self.exec_block(st.body, frame)
            except _Break:
                return
            except _Continue:
                continue

    def s_For(self, st, frame):
        itv = self.eval(st.iter, frame)
        if isinstance(itv, SeqVal):
            items = list(itv.items)
        elif isinstance(itv, DictVal) and not itv.open:
            items = [Const(k) for k in itv.items]
        else:
            n = self.decide(f"iterations({itv.key()})@{self.site(st)}", self.cfg.loop_iters + 1,
                            list(range(self.cfg.loop_iters + 1)))
            items = [Sym(f"elem{i}({itv.key()})") for i in range(n)]
            if n == self.cfg.loop_iters:
                self.emit("LOOP_CUT", st, what="for")
        for item in items:
            self.assign(st.target, item, frame, st)
            try:
                self.exec_block(st.body, frame)
            except _Break:
                return
            except _Continue:
                continue
        self.exec_block(st.orelse, frame)

    def s_Break(self, st, frame):
        raise _Break

    def s_Continue(self, st, frame):
        raise _Continue

    def s_With(self, st, frame):
        self._with_items(st, list(st.items), frame)

    def _with_items(self, st, items, frame):
        if not items:
            self.exec_block(st.body, frame)
            return
        item = items[0]
        ctx = self.eval(item.context_expr, frame)
        if isinstance(ctx, GenCM):
            # the generator's body is run in place; its `yield` runs the rest of this with statement. What the body raises comes out of the yield
            # expression (contextmanager throws it in there), so `try/finally` and `try/except` around the yield behave as they do at run time - and a
            # bare `yield` followed by clean-up code does not run that code when the body raises.
            state = {"yielded": 0}

            def body_action(value, item=item, items=items, frame=frame, st=st, state=state):
                state["yielded"] += 1
                if state["yielded"] > 1:
                    raise AnalysisError(f"generator context manager yields twice at {self.site(st)}")
                if item.optional_vars is not None:
                    self.assign(item.optional_vars, value, frame, st)
                try:
                    self._with_items(st, items[1:], frame)
                except (_Return, _Break, _Continue) as c:
                    raise _BodyControl(c) from None
            try:
                self.call_function(ctx.fn, ctx.self_val, ctx.args, ctx.kwargs, ctx.closure, ctx.bound_cls, st, yield_action=body_action)
            except _BodyControl as b:
                raise b.inner from None
            if not state["yielded"]:
                raise AnalysisError(f"generator context manager did not yield at {self.site(st)}")
            return
        entered: V = ctx
        exit_action = None
        if isinstance(ctx, Obj) and ctx.cls is not None and ctx.cls.find_method("__enter__"):
            entered = self.call_function(ctx.cls.find_method("__enter__"), ctx, [], {}, None, None, st)
            ex = ctx.cls.find_method("__exit__")

            def exit_action(exc, ctx=ctx, ex=ex):
                if ex is None:
                    return
                if exc is None:
                    a = [NONE, NONE, NONE]
                else:
                    a = [Sym("exc_type", TypeRef(prim="ext:type")), exc, Sym("exc_tb")]
                self.call_function(ex, ctx, a, {}, None, None, st)
        else:
            self.emit("WITH_ENTER", st, ctx=ctx.key(), ctx_v=ctx)
            closing = isinstance(ctx, Sym) and ctx.parts and ctx.parts[0] == "EXTCALL" and ctx.parts[1] == "contextlib.closing"
            if closing and ctx.parts[2]:
                entered = ctx.parts[2][0]

            def exit_action(exc, ctx=ctx, closing=closing, entered=entered):
                self.emit("WITH_EXIT", st, ctx=ctx.key(), exceptional=exc is not None, ctx_v=ctx)
                if closing:
                    close = self.getattr_v(entered, "close", st)
                    self.call_value(close, [], {}, st)
        if item.optional_vars is not None:
            self.assign(item.optional_vars, entered, frame, st)
        try:
            self._with_items(st, items[1:], frame)
        except _Raise as r:
            exit_action(r.exc)
            raise
        except (_Return, _Break, _Continue, _BodyControl):
            exit_action(None)
            raise
        else:
            exit_action(None)

    def s_Try(self, st, frame):
        try:
            try:
                self.exec_block(st.body, frame)
            except _Raise as r:
                handler = None
                for h in st.handlers:
                    if h.type is None or self.handler_matches(r.exc, h.type, frame):
                        handler = h
                        break
                if handler is None:
                    raise
                if handler.name:
                    frame.locals[handler.name] = r.exc
                self.exc_stack.append(r.exc)
                self.emit("CATCH", handler, exc=r.exc.key(), handler=ast.unparse(handler.type) if handler.type else "<bare>")
                try:
                    self.exec_block(handler.body, frame)
                finally:
                    self.exc_stack.pop()
            else:
                self.exec_block(st.orelse, frame)
        except (_Raise, _Return, _Break, _Continue, _BodyControl):
            if st.finalbody:
                self.exec_block(st.finalbody, frame)
            raise
        else:
            if st.finalbody:
                self.exec_block(st.finalbody, frame)

    def handler_matches(self, exc: V, type_expr: ast.expr, frame: Frame) -> bool:
        t = self.eval(type_expr, frame)
        targets = t.items if isinstance(t, SeqVal) else [t]
        for x in targets:
            if isinstance(x, ClassVal):
                fq = x.cls.fq
            elif isinstance(x, ExtRef):
                fq = x.fq
            else:
                if self.decide_bool(f"{exc.key()} caught-by {x.key()}"):
                    return True
                continue
            if self.exc_matches(exc, fq):
                return True
        return False

    def s_Match(self, st, frame):
        subj = self.eval(st.subject, frame)
        for case in st.cases:
            binds: dict[str, V] = {}
            if self.match_pattern(case.pattern, subj, frame, binds):
                frame.locals.update(binds)
                if case.guard is not None and not self.truth(self.eval(case.guard, frame)):
                    continue
                self.exec_block(case.body, frame)
                return

    def match_pattern(self, pat, subj: V, frame: Frame, binds: dict) -> bool:
        if isinstance(pat, ast.MatchValue):
            v = self.eval(pat.value, frame)
            return self._equal(subj, v, identity=False)
        if isinstance(pat, ast.MatchSingleton):
            return self._equal(subj, Const(pat.value), identity=True)
        if isinstance(pat, ast.MatchOr):
            return any(self.match_pattern(p, subj, frame, binds) for p in pat.patterns)
        if isinstance(pat, ast.MatchAs):
            if pat.pattern is not None and not self.match_pattern(pat.pattern, subj, frame, binds):
                return False
            if pat.name:
                binds[pat.name] = subj
            return True
        if isinstance(pat, ast.MatchClass):
            c = self.eval(pat.cls, frame)
            if not self.isinstance_v(subj, c):
                return False
            if pat.patterns or pat.kwd_patterns:
                return self.decide_bool(f"match-class-args@{self.site(pat)}")
            return True
        return self.decide_bool(f"match@{self.site(pat)}")


# ---------------------------------------------------------------------------
_MUTATORS = {"append", "appendleft", "pop", "popleft", "clear", "extend", "add", "remove", "discard", "update", "insert",
             "put", "put_nowait", "get", "get_nowait", "set", "setdefault", "popitem", "sort", "reverse"}


def _load(target):
    t = ast.parse(ast.unparse(target), mode="eval").body
    return t


def _is_stub(fn: FuncInfo) -> bool:
    body = fn.node.body if not isinstance(fn.node, ast.Lambda) else None
    if body is None:
        return False
    stmts = [s for s in body if not (isinstance(s, ast.Expr) and isinstance(s.value, ast.Constant) and isinstance(s.value.value, str))]
    if not stmts:
        return True
    if len(stmts) == 1:
        s = stmts[0]
        if isinstance(s, ast.Pass):
            return True
        if isinstance(s, ast.Expr) and isinstance(s.value, ast.Constant) and s.value.value is Ellipsis:
            return True
        if isinstance(s, ast.Raise) and s.exc is not None and "NotImplementedError" in ast.unparse(s.exc):
            return True
    return False


_EXT_CACHE: dict[str, object] = {}


def _ext_class(fq: str):
    if fq in _EXT_CACHE:
        return _EXT_CACHE[fq]
    res = None
    mod, _, name = fq.rpartition(".")
    if mod in ("builtins", "queue", "json", "concurrent.futures", "threading", "decimal", "datetime", "uuid"):
        try:
            res = getattr(importlib.import_module(mod), name, None)
            if not isinstance(res, type):
                res = None
        except Exception:  # noqa: BLE001
            res = None
    _EXT_CACHE[fq] = res
    return res
