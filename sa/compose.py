"""Thorough tier: composition of the per-cell trace tables across invocations.

The quick tier judges every (executor, status) cell separately and leaves open
"which cell does the next invocation start in".  Here the cells are composed:
an abstract history state (backend status of the operation + what has been
observed so far) is propagated through every trace of the current cell, cut at
every event (crash point), with the backend's own transitions between
invocations, until a fixed point.  Everything is derived from the trace table,
i.e. from the source; nothing is executed.
"""

from __future__ import annotations

from dataclasses import dataclass

from .protocol import ABSENT, Trace, user_events

ACTION_RESULT = {"START": "STARTED", "RETRY": "PENDING", "SUCCEED": "SUCCEEDED", "FAIL": "FAILED"}
TERMINAL = {"SUCCEEDED", "FAILED", "CANCELLED", "TIMED_OUT", "STOPPED"}


def backend_successors(optype: str, status: str) -> set[str]:
    """Statuses the service may move an operation to on its own, between two reads."""
    out = {status}
    if status == "PENDING":
        out.add("READY")
    if status == "STARTED":
        if optype == "WAIT":
            out.add("SUCCEEDED")
        elif optype == "CALLBACK":
            out |= {"SUCCEEDED", "FAILED", "TIMED_OUT"}
        elif optype == "CHAINED_INVOKE":
            out |= {"SUCCEEDED", "FAILED", "TIMED_OUT", "STOPPED"}
    return out


@dataclass(frozen=True)
class HState:
    status: str  # backend status of the operation
    entered: bool  # the user function was entered in the current attempt
    done: bool  # a terminal record was accepted at some point
    replay_children: bool = False


@dataclass
class Step:
    """one invocation: the trace taken, the cut point, resulting state, violations found"""
    src: HState
    dst: HState
    trace: Trace
    cut: int
    accepted: list


def apply_trace(optype: str, st: HState, t: Trace, cut: int, lose_async: frozenset, mode_key: str | None, mode: str | None):
    """Replay the first `cut` events of t on the abstract history; returns (new state, violations) or None if the trace is
    inconsistent with the state (its assumptions about the status it reads do not match)."""
    if mode_key is not None:
        m = dict(t.pc).get(mode_key)
        if m is not None and m != mode:
            return None
    status = st.status
    entered = st.entered
    done = st.done
    viol = []
    accepted = []
    reads = 0
    pc = dict(t.pc)
    pending_async: list[str] = []

    def deliver(act):
        nonlocal status, done, entered
        if act not in ACTION_RESULT:
            return
        if status in TERMINAL:
            viol.append(("lifecycle", f"{act} sent for an operation the backend holds as {status}"))
        elif act == "START" and status not in (ABSENT, "READY"):
            viol.append(("lifecycle", f"START sent while the backend holds the operation as {status}"))
        elif act != "START" and status in (ABSENT, "PENDING"):
            viol.append(("lifecycle", f"{act} sent while the backend holds the operation as {status}"))
        accepted.append(act)
        status = ACTION_RESULT[act]
        if act in ("SUCCEED", "FAIL"):
            done = True
        if act == "RETRY":
            entered = False  # a new attempt begins

    for i, e in enumerate(t.events[:cut]):
        if e.kind == "READ":
            reads += 1
            seen = e.data["status"]
            if seen == "ABSENT":
                if status != ABSENT and reads > 1:
                    # the response of an async update may not have been merged yet
                    continue
                if status != ABSENT:
                    return None
            elif seen.startswith("OperationStatus."):
                if seen.split(".", 1)[1] not in backend_successors(optype, status) | {status}:
                    return None
            else:
                # refreshed symbolic status: the path assumed a concrete one
                assumed = pc.get(f"{seen}=?OperationStatus")
                if assumed is not None and assumed not in backend_successors(optype, status):
                    return None
        elif e.kind == "CKPT":
            if e.data.get("outcome") != "ok":
                break  # the call raised; nothing after it on this trace prefix matters
            act = e.data.get("action")
            if not e.data.get("sync"):
                pending_async.append(act)  # FIFO: delivered no later than the next synchronous update
                continue
            for a in pending_async:
                deliver(a)
            pending_async.clear()
            deliver(act)
        elif e.kind == "USER" and e in user_events(t, "user"):
            if done and not (optype == "CONTEXT" and any("replay_children" in k and v is True for k, v in t.pc)):
                viol.append(("reexecution", "user function entered although a terminal record was accepted earlier"))
            if entered:
                viol.append(("second-entry", "user function entered a second time for the same attempt"))
            entered = True
    # crash / end of the invocation: fire-and-forget updates still queued are either flushed or lost
    if pending_async and not lose_async:
        for a in pending_async:
            deliver(a)
    return HState(status, entered, done), viol, accepted


def explore(optype: str, cells: dict[str, list[Trace]], mode_key: str | None = None, mode: str | None = None, max_states: int = 5000):
    """Fixed point over abstract history states. Returns (visited states, list of (kind, detail, witness path))."""
    start = HState(ABSENT, False, False)
    seen = {start: None}
    work = [start]
    findings = []
    reported = set()
    n_steps = 0
    while work:
        st = work.pop()
        for read_status in backend_successors(optype, st.status):
            trs = cells.get(read_status, [])
            s0 = HState(read_status, st.entered, st.done)
            for t in trs:
                n_ev = len(t.events)
                async_idx = [i for i, e in enumerate(t.events) if e.kind == "CKPT" and not e.data.get("sync")]
                variants = [frozenset()] + ([frozenset(async_idx)] if async_idx else [])
                for cut in range(0, n_ev + 1):
                    if cut < n_ev and t.events[cut - 1].kind not in ("CKPT", "USER", "READ") and cut > 0:
                        continue  # crash points that matter: after a read, a checkpoint, or inside/after user code
                    for lose in variants:
                        r = apply_trace(optype, s0, t, cut, lose, mode_key, mode)
                        if r is None:
                            continue
                        n_steps += 1
                        dst, viol, accepted = r
                        for kind, detail in viol:
                            key = (kind, detail, st.status, read_status)
                            if key not in reported:
                                reported.add(key)
                                findings.append((kind, detail, _witness(seen, st) + [f"invocation reads {read_status}, runs {len(t.events[:cut])} event(s): "
                                                                                    + " ; ".join(e.brief() for e in t.events[:cut] if e.kind in ("CKPT", "USER"))]))
                        if dst not in seen:
                            if len(seen) > max_states:
                                raise RuntimeError("history state space unexpectedly large")
                            seen[dst] = (st, read_status)
                            work.append(dst)
    return seen, findings, n_steps


def _witness(seen, st):
    path = []
    cur = st
    while cur is not None and seen.get(cur) is not None:
        prev, rs = seen[cur]
        path.append(f"... -> status {cur.status} (entered={cur.entered}, done={cur.done})")
        cur = prev
    return list(reversed(path))
