"""Shared slots filled from the repository (terminal set, applicability, helpers)."""

from __future__ import annotations

import ast

from .cfg import walk_shallow
from .model import AnalysisError, FuncInfo, Program
from .protocol import ABSENT, ProtocolModel, Trace

# Which backend status an operation of a given type can be found in.  This is the
# service's lifecycle (docs/ + lambda_service enums), not derivable from the SDK
# source; cells outside it are reported in evidence but never judged.
APPLICABLE = {
    "STEP": ["STARTED", "PENDING", "READY", "SUCCEEDED", "FAILED"],
    "WAIT": ["STARTED", "SUCCEEDED"],  # CANCELLED needs a cancel API the SDK does not have
    "CALLBACK": ["STARTED", "SUCCEEDED", "FAILED", "TIMED_OUT"],
    "CHAINED_INVOKE": ["STARTED", "SUCCEEDED", "FAILED", "TIMED_OUT", "STOPPED"],
    "CONTEXT": ["STARTED", "SUCCEEDED", "FAILED"],
}


def applicable_cells(pm: ProtocolModel):
    for name, ci in pm.executors.items():
        ot = pm.executor_optype(ci)
        if ot not in APPLICABLE:
            raise AnalysisError(f"no applicability row for operation type {ot} ({name})")
        for st in [ABSENT, *APPLICABLE[ot]]:
            yield name, ci, ot, st


TERMINAL_SPEC = ("SUCCEEDED", "FAILED", "CANCELLED", "TIMED_OUT", "STOPPED")


def terminal_statuses(prog: Program) -> set[str]:
    """The statuses the backend never leaves again (its contract, not something to be read off the code under analysis);
    every one of them must exist in the SDK's OperationStatus enum."""
    members = set(prog.cls("lambda_service", "OperationStatus").enum_members)
    missing = set(TERMINAL_SPEC) - members
    if missing:
        raise AnalysisError(f"OperationStatus lacks the terminal member(s) {sorted(missing)}")
    return set(TERMINAL_SPEC)


def replay_completed_statuses(prog: Program) -> list[tuple[set[str], str]]:
    """What ExecutionState's replay tracking counts as 'completed': the membership test on OperationStatus literals in track_replay
    (or a helper it calls), evaluated for every member of the enum (handles `in`, `not in`, and ==/is chains)."""
    sc = prog.cls("state", "ExecutionState")
    members = set(prog.cls("lambda_service", "OperationStatus").enum_members)

    def lits(node):
        out = set()
        for e in getattr(node, "elts", []):
            if isinstance(e, ast.Attribute) and isinstance(e.value, ast.Name) and e.value.id == "OperationStatus":
                out.add(e.attr)
            else:
                return None
        return out

    def resolve(fn, node):
        # a Name bound once in the function / module to a literal collection
        if isinstance(node, ast.Name):
            for scope in (fn.node, fn.module.tree):
                defs = [a.value for a in ast.walk(scope) if isinstance(a, (ast.Assign, ast.AnnAssign)) and a.value is not None
                        and any(isinstance(t, ast.Name) and t.id == node.id for t in (a.targets if isinstance(a, ast.Assign) else [a.target]))]
                if len(defs) == 1:
                    node = defs[0]
                    break
        if isinstance(node, ast.Call) and isinstance(node.func, ast.Name) and node.func.id in ("frozenset", "set", "tuple") and len(node.args) == 1:
            node = node.args[0]
        return node

    tr = sc.methods.get("track_replay")
    if tr is None:
        raise AnalysisError("ExecutionState.track_replay not found")
    todo, seen, found = [tr], set(), []
    while todo:
        f = todo.pop()
        if f.fq in seen:
            continue
        seen.add(f.fq)
        for n in ast.walk(f.node):
            if isinstance(n, ast.Compare) and len(n.ops) == 1 and isinstance(n.ops[0], (ast.In, ast.NotIn)) \
                    and isinstance(n.left, ast.Attribute) and n.left.attr == "status":
                coll = resolve(f, n.comparators[0])
                if isinstance(coll, (ast.Set, ast.Tuple, ast.List)):
                    ls = lits(coll)
                    if ls:
                        found.append((ls if isinstance(n.ops[0], ast.In) else members - ls, f"{f.qualname}: `{ast.unparse(n)[:100]}`"))
        for _, m in self_method_calls(f.node):
            if m in sc.methods:
                todo.append(sc.methods[m])
    if not found:
        raise AnalysisError("the status test of the replay tracking was not recognised (expected `status in/not in {OperationStatus...}`)")
    return found


def construct_of(site: str) -> str:
    """'src/.../step.py:StepOperationExecutor.execute:222' -> 'operation/step.py:StepOperationExecutor.execute'"""
    parts = site.split(":")
    if len(parts) >= 2:
        path = parts[0].split("aws_durable_execution_sdk_python/")[-1]
        return f"{path}:{parts[1]}"
    return site


def fn_construct(fn: FuncInfo) -> str:
    return f"{fn.module.relpath.split('aws_durable_execution_sdk_python/')[-1]}:{fn.qualname}"


def trace_sig(t: Trace) -> str:
    b = t.brief()
    return " ; ".join(b["events"]) + " => " + (b.get("raises") or f"RETURN {b.get('returns')}")


def call_name(call: ast.Call) -> str:
    return ast.unparse(call.func)


def calls_in(fn_node, *, shallow=True):
    it = walk_shallow(fn_node) if shallow else ast.walk(fn_node)
    return [n for n in it if isinstance(n, ast.Call)]


def self_method_calls(fn_node):
    """(call, method_name) for every self.<m>(...) call in a function (nested defs excluded)."""
    out = []
    for n in walk_shallow(fn_node):
        if isinstance(n, ast.Call) and isinstance(n.func, ast.Attribute) and isinstance(n.func.value, ast.Name) \
                and n.func.value.id == "self":
            out.append((n, n.func.attr))
    return out


def methods_writing_operations(prog: Program) -> set[str]:
    """Names of ExecutionState methods that (transitively via self-calls) mutate self.operations."""
    sc = prog.cls("state", "ExecutionState")
    direct = set()
    MUT = {"update", "pop", "clear", "setdefault", "popitem", "__setitem__"}
    for name, fn in sc.methods.items():
        for n in ast.walk(fn.node):
            if isinstance(n, ast.Call) and isinstance(n.func, ast.Attribute) and n.func.attr in MUT \
                    and isinstance(n.func.value, ast.Attribute) and n.func.value.attr == "operations":
                direct.add(name)
            if isinstance(n, ast.Subscript) and isinstance(n.ctx, ast.Store) and isinstance(n.value, ast.Attribute) \
                    and n.value.attr == "operations":
                direct.add(name)
    direct.discard("__init__")
    changed = True
    while changed:
        changed = False
        for name, fn in sc.methods.items():
            if name in direct or name == "__init__":
                continue
            if any(m in direct for _, m in self_method_calls(fn.node)):
                direct.add(name)
                changed = True
    return direct


def at_least_one(v, pc) -> bool:
    """Abstract lower bound: is the value provably >= 1 on this path?"""
    from .values import Const, Sym

    if isinstance(v, Const):
        return isinstance(v.value, (int, float)) and not isinstance(v.value, bool) and v.value >= 1
    if isinstance(v, Sym):
        d = dict(pc)
        k = v.key()
        if d.get(f"{k} < 1") is False or d.get(f"{k} >= 1") is True or d.get(f"{k} <= 0") is False or d.get(f"{k} > 0") is True:
            return True
        if v.parts and v.parts[0] == "MAX":
            return any(at_least_one(x, pc) for x in v.parts[1])
    return False


def attempt_expr_ok(v, pc, absent_cell: bool = False) -> bool:
    """attempt handed to a strategy / logger: recorded attempt + 1, or 1 when nothing is recorded."""
    from .values import Const, Sym

    if isinstance(v, Const):
        # "1 when nothing is recorded": the path must have established that there is no recorded attempt count (r6_C04: a constant 1 left over from
        # __init__ was handed to the strategy for an interrupted retry attempt, whose record says attempt k-1)
        if v.value != 1:
            return False
        if absent_cell:
            return True  # nothing was recorded when the call began (concretely absent: no path condition is created for it)
        for k, val in pc:
            ks = str(k)
            if (ks.endswith(".operation") or ks.endswith(".step_details") or ks.endswith("step_details)") or ks.endswith("operation)")) and val is False:
                return True
            if (ks.endswith("operation is None") or ks.endswith("step_details is None")) and val is True:
                return True
            if (ks.endswith("operation is not None") or ks.endswith("step_details is not None")) and val is False:
                return True
        return False
    if isinstance(v, Sym) and v.parts and v.parts[0] == "BINOP" and v.parts[1] == "+":
        l, r = v.parts[2], v.parts[3]
        if isinstance(r, Const) and r.value == 1 and isinstance(l, Sym) and l.k.endswith("step_details.attempt") and l.k.startswith("op@"):
            return True
        if isinstance(l, Const) and l.value == 1 and isinstance(r, Sym) and r.k.endswith("step_details.attempt"):
            return True
    return False


def child_context_escapes(prog):
    """Ownership rule: a child context carries the position counter the ids of the body's operations are derived from, so every run of
    a body (first run, timer re-submission, replay) must get a context created for that run.  Returns (sites, escapes): for every call of
    `create_child_context`, the construct, and every way its result outlives the activation that created it (stored in an attribute,
    a container, a global, or handed to a mutator of longer-lived state)."""
    import ast as _ast

    from .cfg import walk_shallow

    sites, escapes = [], []
    for fi in prog.functions.values():
        if isinstance(fi.node, _ast.Lambda):
            continue
        calls = [n for n in walk_shallow(fi.node) if isinstance(n, _ast.Call) and isinstance(n.func, _ast.Attribute) and n.func.attr == "create_child_context"]
        if not calls:
            continue
        names = set()
        body_nodes = list(walk_shallow(fi.node))
        parents = {}
        for n in body_nodes:
            for c in _ast.iter_child_nodes(n):
                parents[id(c)] = n
        for c in calls:
            sites.append((fi, c))
            p = parents.get(id(c))
            if isinstance(p, (_ast.Assign, _ast.AnnAssign)):
                tg = p.targets if isinstance(p, _ast.Assign) else [p.target]
                for t in tg:
                    if isinstance(t, _ast.Name):
                        names.add(t.id)
                    else:
                        escapes.append((fi, c, f"the new context is stored in `{_ast.unparse(t)}`"))
            elif isinstance(p, _ast.Call) and c in p.args and not (isinstance(p.func, _ast.Attribute) and p.func.attr in _CONTAINER_MUTATORS):
                pass  # handed straight to the body / a callee
            elif isinstance(p, (_ast.Return, _ast.keyword)):
                pass
            else:
                escapes.append((fi, c, f"the new context is used in `{_ast.unparse(p)[:80]}`" if p is not None else "unrecognised use"))
        # every other binding of those locals must also be a fresh context, and the locals must not be stored anywhere longer-lived
        for n in body_nodes:
            if isinstance(n, (_ast.Assign, _ast.AnnAssign)):
                tg = n.targets if isinstance(n, _ast.Assign) else [n.target]
                val = n.value
                for t in tg:
                    if isinstance(t, _ast.Name) and t.id in names and val is not None and not (
                            isinstance(val, _ast.Call) and isinstance(val.func, _ast.Attribute) and val.func.attr == "create_child_context"):
                        escapes.append((fi, n, f"the context local `{t.id}` is also bound to `{_ast.unparse(val)[:80]}` (not a newly created context)"))
                    if not isinstance(t, _ast.Name) and val is not None and any(isinstance(x, _ast.Name) and x.id in names for x in _ast.walk(val)):
                        escapes.append((fi, n, f"the context is stored in `{_ast.unparse(t)}`"))
            elif isinstance(n, _ast.Call) and isinstance(n.func, _ast.Attribute) and n.func.attr in _CONTAINER_MUTATORS \
                    and any(isinstance(x, _ast.Name) and x.id in names for a in [*n.args, *[k.value for k in n.keywords]] for x in _ast.walk(a)):
                escapes.append((fi, n, f"the context is put into a container via `{_ast.unparse(n)[:80]}`"))
            elif isinstance(n, (_ast.Global, _ast.Nonlocal)) and set(n.names) & names:
                escapes.append((fi, n, "the context local is declared global/nonlocal"))
    return sites, escapes


_CONTAINER_MUTATORS = {"append", "add", "setdefault", "insert", "extend", "update", "put", "put_nowait", "appendleft"}


# ---------------------------------------------------------------------------------------------------------------------------
# negative-verdict memoisation in a monotone guard
_SET_MUTATORS = {"add", "update", "append", "extend", "setdefault", "insert", "__setitem__"}


def _self_attr(n):
    import ast as _ast
    while isinstance(n, _ast.Subscript):
        n = n.value
    if isinstance(n, _ast.Attribute) and isinstance(n.value, _ast.Name) and n.value.id == "self":
        return n.attr
    return None


def _writes(fn_node):
    """(attr, stmt, how) for every statement of fn that grows / rebinds a self attribute ('grow') or empties it completely ('clear')."""
    import ast as _ast
    out = []
    for st in _ast.walk(fn_node):
        if isinstance(st, (_ast.Assign, _ast.AnnAssign, _ast.AugAssign)):
            tg = st.targets if isinstance(st, _ast.Assign) else [st.target]
            for t in tg:
                a = _self_attr(t)
                if a is None:
                    continue
                val = st.value
                empty = isinstance(t, _ast.Attribute) and not isinstance(st, _ast.AugAssign) and val is not None and (
                    (isinstance(val, _ast.Call) and not val.args and not val.keywords and isinstance(val.func, _ast.Name) and val.func.id in ("set", "dict", "list"))
                    or (isinstance(val, (_ast.Dict, _ast.List, _ast.Set)) and not getattr(val, "keys", getattr(val, "elts", []))))
                shrink = isinstance(st, _ast.AugAssign) and isinstance(st.op, (_ast.Sub, _ast.BitAnd))
                out.append((a, st, "clear" if empty else ("shrink" if shrink else "grow")))
        elif isinstance(st, _ast.Call) and isinstance(st.func, _ast.Attribute):
            a = _self_attr(st.func.value)
            if a is None:
                continue
            if st.func.attr == "clear":
                out.append((a, st, "clear"))
            elif st.func.attr in _SET_MUTATORS:
                out.append((a, st, "grow"))
            elif st.func.attr in ("discard", "remove", "pop", "difference_update", "intersection_update"):
                out.append((a, st, "shrink"))
    return out


def stale_negative_verdicts(cls_node, guard_fn_name: str):
    """A guard whose positive verdict is monotone in time (once a context completed, everything beneath it stays orphaned) may remember
    positive verdicts for ever, but a remembered *negative* verdict ("no completed ancestor") goes stale whenever any of the sets the
    positive verdict is read from grows.  Returns (predicates, memo attrs, findings): a self attribute that a predicate function writes
    on a path that does not return True is a negative memo; it must be emptied completely (`.clear()` / rebinding to an empty container)
    in every function that grows a positive-verdict set (or in all callers of that function)."""
    import ast as _ast

    methods = {n.name: n for n in cls_node.body if isinstance(n, (_ast.FunctionDef, _ast.AsyncFunctionDef))}
    g = methods.get(guard_fn_name)
    if g is None:
        return [], {}, [("?", f"{guard_fn_name} not found")]
    # predicate functions: self-methods called inside the test of the `if` that raises the orphan exception (transitively)
    tests = []
    for n in _ast.walk(g):
        if isinstance(n, _ast.If) and any(isinstance(r, _ast.Raise) and r.exc is not None and "Orphan" in _ast.unparse(r.exc) for b in n.body for r in _ast.walk(b)):
            tests.append(n.test)
    preds, todo = {}, []
    for t in tests:
        for c in _ast.walk(t):
            if isinstance(c, _ast.Call) and isinstance(c.func, _ast.Attribute) and isinstance(c.func.value, _ast.Name) and c.func.value.id == "self" and c.func.attr in methods:
                todo.append(c.func.attr)
    while todo:
        m = todo.pop()
        if m in preds:
            continue
        preds[m] = methods[m]
        for c in _ast.walk(methods[m]):
            if isinstance(c, _ast.Call) and isinstance(c.func, _ast.Attribute) and isinstance(c.func.value, _ast.Name) and c.func.value.id == "self" and c.func.attr in methods:
                todo.append(c.func.attr)
    # positive-verdict sets: self attributes read (membership / lookup) by the guard test or the predicates
    pos = set()
    for node in [*tests, *preds.values()]:
        for n in _ast.walk(node):
            a = _self_attr(n) if isinstance(n, (_ast.Attribute, _ast.Subscript)) else None
            if a and not a.endswith("_lock"):
                pos.add(a)

    def block_returns_true(fn_node, stmt):
        # the statement list that holds `stmt` ends in `return True`
        for n in _ast.walk(fn_node):
            for fld in ("body", "orelse", "finalbody"):
                blk = getattr(n, fld, None)
                if isinstance(blk, list) and any(stmt is s or any(stmt is x for x in _ast.walk(s)) for s in blk):
                    inner = [s for s in blk if stmt is s or any(stmt is x for x in _ast.walk(s))][0]
                    if inner is stmt or isinstance(inner, _ast.Expr) and inner.value is stmt:
                        last = blk[-1]
                        return isinstance(last, _ast.Return) and isinstance(last.value, _ast.Constant) and last.value.value is True
        return False

    memo = {}
    for pname, p in preds.items():
        for a, st, how in _writes(p):
            if how == "grow" and not block_returns_true(p, st):
                memo.setdefault(a, []).append((pname, st.lineno))
    findings = []
    if memo:
        growers = {}
        for mname, m in methods.items():
            if mname == "__init__":
                continue
            for a, st, how in _writes(m):
                if how == "grow" and a in pos and a not in memo:
                    growers.setdefault(mname, set()).add(a)
        clears = {mname: {a for a, st, how in _writes(m) if how == "clear"} for mname, m in methods.items()}
        callers = {}
        for mname, m in methods.items():
            for c in _ast.walk(m):
                if isinstance(c, _ast.Call) and isinstance(c.func, _ast.Attribute) and isinstance(c.func.value, _ast.Name) and c.func.value.id == "self":
                    callers.setdefault(c.func.attr, set()).add(mname)
        for a, where in memo.items():
            for gname, grown in sorted(growers.items()):
                ok = a in clears.get(gname, set()) or (callers.get(gname) and all(a in clears.get(c, set()) for c in callers[gname]))
                if not ok:
                    findings.append((gname, f"`self.{a}` remembers a negative verdict (written in {where[0][0]}, line {where[0][1]}) but `{gname}` grows "
                                            f"{sorted('self.' + x for x in grown)} without emptying it completely: an operation first started "
                                            "under a deeper descendant of a context that completes later keeps its stale 'live' verdict"))
    return sorted(preds), memo, findings


NEG_MEMO_FIXTURE = '''
class S:
    def create_checkpoint(self, u):
        if u.is_context_end:
            self._mark(u.id)
            self._completed.add(u.id)
            self._live.discard(u.id)
        if u.id in self._done or self._dead(u.parent):
            self._done.add(u.id)
            raise OrphanedChildException("x")
    def _dead(self, p):
        if p in self._live:
            return False
        cur = p
        while cur:
            if cur in self._completed or cur in self._done:
                return True
            cur = self._parent_of.get(cur)
        self._live.add(p)
        return False
    def _mark(self, c):
        self._done.update(self._children.get(c, ()))
'''


def none_without_established_absence(t, payload_suffixes=(".result",)) -> bool:
    """A recorded-success path that delivers None without deserialising anything is only right when the path *established* that no payload was
    recorded (`<payload> is None` decided True, or the details object is absent) - a truthiness test conflates '' / '0' / '[]' payloads with none."""
    from .values import Const
    if t.outcome != "return" or not (isinstance(t.value, Const) and t.value.value is None):
        return False
    if [e for e in t.events if e.kind == "DES"]:
        return False
    for k, v in t.pc:
        if v is True and k.endswith(" is None") and (any(k[: -len(" is None")].endswith(sfx) for sfx in payload_suffixes) or k[: -len(" is None")].endswith("_details")):
            return False
    return True


def branch_query_scenarios(prog, pm):
    """Small-scope evaluation of ExecutionState.raise_if_in_orphaned_branch (the query every operation asks on entry): returns
    [(description, verdict, expected)] with verdict / expected in {"passes", "stops"}; [] if the method does not exist.
    Chains are written op.parent -> ... -> root; S = recorded SUCCEEDED, O = recorded STARTED (open), U = not recorded at all."""
    from .values import Const, DictVal, EnumVal, Obj, SeqVal, Sym, TypeRef

    sc = prog.cls("state", "ExecutionState")
    fn = sc.methods.get("raise_if_in_orphaned_branch")
    if fn is None:
        return []
    opc = prog.cls("lambda_service", "Operation")
    attrs = {a.attr for m in (fn, sc.methods["_has_completed_ancestor"]) for a in __import__("ast").walk(m.node)
             if isinstance(a, __import__("ast").Attribute) and isinstance(a.value, __import__("ast").Name) and a.value.id == "self"}
    SC = [
        ("live branch traverses its own summarised context again (the context completed in this invocation: it and what is beneath it are marked)",
         [("R", "S"), ("B", "O"), ("M", "O")], {"R"}, {"x"}, "passes"),
        ("... nested summarised contexts", [("R2", "S"), ("R", "S"), ("B", "O"), ("M", "O")], {"R", "R2"}, {"x", "R2"}, "passes"),
        ("every enclosing context is recorded SUCCEEDED up to the root", [("R", "S"), ("C", "S")], set(), set(), "passes"),
        ("operation at the top level", [], set(), set(), "passes"),
        ("first-time operation in a live branch", [("B", "O"), ("M", "O")], set(), set(), "passes"),
        ("orphaned branch (its parallel was handed its completion record) traverses a summarised context recorded by an earlier invocation",
         [("R", "S"), ("B", "O"), ("P", "S")], {"P"}, set(), "stops"),
        ("orphaned branch that is itself in the marked set", [("R", "S"), ("B", "O"), ("P", "O")], set(), {"B"}, "stops"),
        ("operation directly in an orphaned branch", [("B", "O"), ("P", "S")], {"P"}, set(), "stops"),
        ("orphaned two levels up", [("C", "O"), ("B", "O"), ("P", "O")], {"P"}, set(), "stops"),
        ("branch context not recorded (its START is still queued), parent completed", [("B", "U"), ("P", "O")], {"P"}, set(), "stops"),
        ("surviving branch whose OWN context an earlier invocation recorded SUCCEEDED (summarised) re-traverses its body while the parent parallel completes and its "
         "SUCCEEDED record is merged", [("c", "S"), ("P", "S")], {"P"}, set(), "stops"),
    ]
    out = []
    for desc, chain, completed, done, want in SC:
        def sf(it, state, chain=chain, completed=completed, done=done):
            o = Obj(sc, label="st")
            ops, links = {}, {}
            for i, (nid, st) in enumerate(chain):
                par = chain[i + 1][0] if i + 1 < len(chain) else None
                if st == "U":
                    if par:
                        links[nid] = Const(par)
                    continue
                op = Obj(opc, label=f"op_{nid}")
                stn = {"S": "SUCCEEDED", "O": "STARTED"}[st]
                op.fields.update(operation_id=Const(nid), parent_id=Const(par) if par else Const(None),
                                 status=EnumVal(pm.status_cls.fq, stn, pm.status_cls.enum_members[stn]))
                ops[nid] = op
            for a in attrs:
                if a.endswith("_lock"):
                    o.fields[a] = Sym(a, TypeRef(prim="ext:threading.Lock"))
            o.fields["_completed_contexts"] = SeqVal("set", [Const(x) for x in sorted(completed)])
            o.fields["_parent_done"] = SeqVal("set", [Const(x) for x in sorted(done)])
            o.fields["_parent_of"] = DictVal(dict(links))
            o.fields["operations"] = DictVal(dict(ops))
            return o

        first = chain[0][0] if chain else None
        trs = pm.run_function(fn, sf, lambda it, state, first=first: {fn.node.args.args[1].arg: Const(first)}, cell=("branch-query", ""), while_iters=8,
                              ext_calls={"builtins.set": lambda it, a, k, n: SeqVal("set", list(a[0].items) if a and isinstance(a[0], SeqVal) else [])})
        got = sorted({"passes" if t.outcome == "return" else ("stops" if (t.exc_class() or "").endswith("OrphanedChildException") else f"raises {t.exc_class()}") for t in trs})
        out.append((desc + " [" + " -> ".join(f"{n}:{s}" for n, s in chain) + f"; completed={sorted(completed)} marked={sorted(done)}]", "/".join(got), want))
    return out


def completion_event_publication(prog: Program):
    """Publication order inside threading.CompletionEvent, the one-shot mailbox between the consumer thread and a blocked producer.

    Writer (`set`): whatever it stores in the object besides the inner Event is stored BEFORE the inner Event is set - the waiter runs the
    moment the Event is set and reads the slot once. Reader (`wait`): the slot is read AFTER the inner wait returned.
    Returns (construct FuncInfo, [(rule-suffix, ok, detail)]), analysed counts."""
    from .cfg import CFG
    cls = prog.cls("threading", "CompletionEvent")
    init, setter, waiter = cls.methods.get("__init__"), cls.methods.get("set"), cls.methods.get("wait")
    if init is None or setter is None or waiter is None:
        raise AnalysisError("CompletionEvent.__init__/set/wait not found")
    inner, payload = None, []
    for st in ast.walk(init.node):
        tgt = st.targets[0] if isinstance(st, ast.Assign) and len(st.targets) == 1 else (st.target if isinstance(st, ast.AnnAssign) else None)
        a = _self_attr(tgt) if tgt is not None else None
        if a is None or getattr(st, "value", None) is None:
            continue
        if isinstance(st.value, ast.Call) and ast.unparse(st.value.func).split(".")[-1] == "Event":
            inner = a
        else:
            payload.append(a)
    # the payload is what set() hands over: of the attributes initialised in __init__, those the setter stores into (a configuration attribute that is
    # only ever read is not a slot of the mailbox)
    written_by_set = {_self_attr(t) for st in ast.walk(setter.node) if isinstance(st, (ast.Assign, ast.AnnAssign, ast.AugAssign))
                      for t in (st.targets if isinstance(st, ast.Assign) else [st.target])}
    payload = [a for a in payload if a in written_by_set]
    if inner is None or not payload:
        raise AnalysisError(f"CompletionEvent: inner event {inner!r}, payload slots {payload!r}")
    out = []
    g = CFG(setter)
    sig = g.find_calls(attr="set", recv_text=f"self.{inner}")
    if not sig:
        raise AnalysisError("CompletionEvent.set never sets its inner event")

    def stores(gr, attrs):
        res = []
        for n in gr.nodes:
            st = n.stmt
            if isinstance(st, (ast.Assign, ast.AnnAssign, ast.AugAssign)):
                tgts = st.targets if isinstance(st, ast.Assign) else [st.target]
                if any(_self_attr(t) in attrs for t in tgts):
                    res.append(n)
        return res
    st_nodes = stores(g, set(payload))
    late = [(s, w) for s in sig for w in st_nodes if g.reachable(s.idx, w.idx)]
    out.append(("payload-stored-before-the-signal", not late and bool(st_nodes),
                (f"line {late[0][1].lineno}: `{ast.unparse(late[0][1].stmt)}` can run after `self.{inner}.set()` (line {late[0][0].lineno}): the waiter is released first, "
                 "reads an empty slot and returns as if the checkpoint had been accepted - the error arrives in a slot nobody reads any more") if late
                else ("the payload slot is never stored" if not st_nodes else f"{len(st_nodes)} store(s), all before the signal")))
    # the parameter reaches the slot on some path to the signal
    params = {a.arg for a in setter.node.args.args[1:]}
    carried = [w for w in st_nodes if isinstance(w.stmt, (ast.Assign, ast.AnnAssign)) and w.stmt.value is not None
               and any(isinstance(x, ast.Name) and x.id in params for x in ast.walk(w.stmt.value))]
    out.append(("signal-carries-the-error", any(g.reachable(w.idx, s.idx) for w in carried for s in sig),
                f"{len(carried)} store(s) of the argument reach the signal"))
    gw = CFG(waiter)
    waits = gw.find_calls(attr="wait", recv_text=f"self.{inner}")
    if not waits:
        raise AnalysisError("CompletionEvent.wait never waits on its inner event")

    def loads(n):
        return any(isinstance(x, ast.Attribute) and isinstance(x.ctx, ast.Load) and _self_attr(x) in payload
                   for e in gw.header_exprs(n) for x in ast.walk(e))
    wait_ids = {w.idx for w in waits}
    # every path from the entry to a read passes a wait (several wait sites in different branches are fine)
    early = [n for n in gw.nodes if loads(n) and n.idx not in wait_ids and (n.idx == gw.entry or gw.reachable(gw.entry, n.idx, avoiding=wait_ids))]
    raises = [n for n in gw.nodes if isinstance(n.stmt, ast.Raise) and loads(n)]
    out.append(("slot-read-after-the-wait", not early and bool(raises),
                f"line {early[0].lineno}: the slot is read on a path that has not waited" if early else
                ("wait() never raises what was stored" if not raises else f"{len(raises)} raise(s) of the stored error, all after the wait")))
    # the wait is as long as its caller says: create_checkpoint waits without a limit because "not confirmed yet" is not "confirmed"; a default limit
    # substituted inside the mailbox turns every unbounded wait of every caller into a timed one whose False nobody looks at (r8_C03)
    wparams = [a.arg for a in waiter.node.args.args[1:]]
    inner_calls = [c for w in waits for c in gw.calls_at(w) if isinstance(c.func, ast.Attribute) and c.func.attr == "wait" and ast.unparse(c.func.value) == f"self.{inner}"]
    passed = []
    for c in inner_calls:
        argv = list(c.args) + [k.value for k in c.keywords]
        passed.append(len(argv) <= 1 and all(isinstance(a, ast.Name) and a.id in wparams for a in argv))
    defaults_none = all(isinstance(d, ast.Constant) and d.value is None for d in waiter.node.args.defaults)
    rebound = [n.lineno for n in gw.nodes if isinstance(n.stmt, (ast.Assign, ast.AnnAssign, ast.AugAssign)) and any(
        isinstance(x, ast.Name) and x.id in wparams and isinstance(x.ctx, ast.Store) for x in ast.walk(n.stmt))]
    out.append(("wait-is-bounded-only-by-its-caller", bool(inner_calls) and all(passed) and defaults_none and not rebound,
                f"{len(inner_calls)} inner wait(s) take the caller's own timeout (default None)" if inner_calls and all(passed) and defaults_none and not rebound else
                "the inner wait does not take exactly the caller's timeout (a default limit substituted inside the mailbox): a caller that waits without a limit "
                "is released by the clock with False, which no caller reads - it goes on as if the record had been accepted"))
    return (setter, waiter), out, {"inner": inner, "payload": payload, "signal_sites": len(sig), "stores": len(st_nodes)}


def unguarded_text_conversions(fn_node, pnames: set[str], truthiness: bool = False):
    """(n_sites, [(lineno, what)]): places where the text of an object named in `pnames` is asked for - str()/repr()/format() calls and f-string
    interpolations, which run the object's own __str__/__repr__/__format__ - outside the body of a try that has handlers. With `truthiness`, a bare
    truth test of the name (`if x`, `x and ..`, `.. if x else ..`: __bool__/__len__) counts as well."""
    par = {}
    for n in ast.walk(fn_node):
        for c in ast.iter_child_nodes(n):
            par[id(c)] = n

    def guarded(n):
        cur = par.get(id(n))
        while cur is not None:
            if isinstance(cur, ast.Try) and cur.handlers and any(n is x for b in cur.body for x in ast.walk(b)):
                return True
            cur = par.get(id(cur))
        return False
    n_sites, bad = 0, []
    for n in ast.walk(fn_node):
        what = None
        if isinstance(n, ast.Call) and isinstance(n.func, ast.Name) and n.func.id in ("str", "repr", "format") and n.args \
                and isinstance(n.args[0], ast.Name) and n.args[0].id in pnames:
            what = f"{n.func.id}({n.args[0].id})"
        elif isinstance(n, ast.FormattedValue) and isinstance(n.value, ast.Name) and n.value.id in pnames:
            what = "f'{" + n.value.id + "}'"
        elif isinstance(n, ast.BinOp) and isinstance(n.op, ast.Mod) and isinstance(n.left, ast.Constant) and isinstance(n.left.value, str) \
                and any(isinstance(x, ast.Name) and x.id in pnames for x in ast.walk(n.right)):
            what = "'%s' % <it>"
        elif truthiness:
            tests = []
            if isinstance(n, (ast.If, ast.IfExp, ast.While)):
                tests = [n.test]
            elif isinstance(n, ast.BoolOp):
                tests = n.values
            elif isinstance(n, ast.UnaryOp) and isinstance(n.op, ast.Not):
                tests = [n.operand]
            for t_ in tests:
                if isinstance(t_, ast.Name) and t_.id in pnames:
                    what = f"truth test of `{t_.id}`"
        if what is None:
            continue
        n_sites += 1
        if not guarded(n):
            bad.append((n.lineno, what))
    return n_sites, bad



class MiniEvalUnknown(Exception):
    pass


def mini_eval(e, env: dict):
    """Evaluates a small pure expression on concrete stand-ins: `env` maps the source text of a sub-expression (a name, an attribute chain, a call)
    to its value. Supports constants, conditional expressions, and / or / not, comparisons, + - * / // % ** and unary minus. Anything else raises
    MiniEvalUnknown (the caller records the rule as undecided)."""
    txt = ast.unparse(e)
    if txt in env:
        return env[txt]
    if isinstance(e, ast.Constant):
        return e.value
    if isinstance(e, ast.IfExp):
        return mini_eval(e.body if mini_eval(e.test, env) else e.orelse, env)
    if isinstance(e, ast.BoolOp):
        # short-circuit, as Python does (`m and m.get(..)` with m None must not look at the second operand)
        last = None
        for v_ in e.values:
            last = mini_eval(v_, env)
            if bool(last) == isinstance(e.op, ast.Or):
                return last
        return last
    if isinstance(e, ast.UnaryOp):
        v = mini_eval(e.operand, env)
        if isinstance(e.op, ast.Not):
            return not v
        if isinstance(e.op, ast.USub):
            return -v
    if isinstance(e, ast.BinOp):
        l, r = mini_eval(e.left, env), mini_eval(e.right, env)
        ops = {ast.Add: lambda: l + r, ast.Sub: lambda: l - r, ast.Mult: lambda: l * r, ast.Div: lambda: l / r, ast.FloorDiv: lambda: l // r,
               ast.Mod: lambda: l % r, ast.Pow: lambda: l ** r}
        if type(e.op) in ops:
            return ops[type(e.op)]()
    if isinstance(e, (ast.Tuple, ast.List, ast.Set)) and not any(isinstance(x, ast.Starred) for x in e.elts):
        return tuple(mini_eval(x, env) for x in e.elts)
    if isinstance(e, ast.Call) and isinstance(e.func, ast.Attribute) and e.func.attr in ("get", "startswith", "endswith") and not e.keywords and 1 <= len(e.args) <= 2:
        # the two pure lookups the classification code uses, on concrete stand-ins (a dict, a str)
        recv = mini_eval(e.func.value, env)
        args = [mini_eval(a, env) for a in e.args]
        if e.func.attr == "get" and isinstance(recv, dict):
            return recv.get(*args)
        if e.func.attr in ("startswith", "endswith") and isinstance(recv, str) and len(args) == 1 and isinstance(args[0], (str, tuple)):
            return getattr(recv, e.func.attr)(args[0])
        raise MiniEvalUnknown(txt[:60])
    if isinstance(e, ast.Compare):
        left = mini_eval(e.left, env)
        for op, c in zip(e.ops, e.comparators):
            right = mini_eval(c, env)
            res = {ast.Eq: lambda: left == right, ast.NotEq: lambda: left != right, ast.Lt: lambda: left < right, ast.LtE: lambda: left <= right,
                   ast.Gt: lambda: left > right, ast.GtE: lambda: left >= right, ast.Is: lambda: left is right, ast.IsNot: lambda: left is not right,
                   ast.In: lambda: left in right, ast.NotIn: lambda: left not in right}.get(type(op))
            if res is None:
                raise MiniEvalUnknown(txt[:60])
            if not res():
                return False
            left = right
        return True
    raise MiniEvalUnknown(txt[:60])


def same_class_config_copies(prog):
    """Sites where a configuration dataclass is rebuilt from an object of the SAME class: a call `C(...)` one of whose arguments reads `<x>.<attr>` with `<x>` a
    parameter annotated as C (or C | None). Returns (module, function node, call node, class info, fields not passed). A field that is not passed silently falls back
    to its default - the caller's choice is lost on the way to the executor. (Deriving a config of ANOTHER class - StepConfig from WaitForCallbackConfig - is not a
    copy and is not listed; `dataclasses.replace(x, ...)` keeps every field it does not name and is not listed either.)"""
    out = []
    n_funcs = 0
    dcs = {c.name: c for c in prog.classes.values() if c.is_dataclass and c.name.endswith("Config")}
    for m in prog.modules.values():
        for fn in [n for n in ast.walk(m.tree) if isinstance(n, (ast.FunctionDef, ast.AsyncFunctionDef))]:
            ann = {}
            for a in list(fn.args.args) + list(fn.args.kwonlyargs):
                if a.annotation is not None:
                    for nm in [x.id for x in ast.walk(a.annotation) if isinstance(x, ast.Name)] + \
                              [x.value.split("[")[0].split("|")[0].strip() for x in ast.walk(a.annotation) if isinstance(x, ast.Constant) and isinstance(x.value, str)]:
                        if nm in dcs:
                            ann[a.arg] = nm
            if not ann:
                continue
            n_funcs += 1
            for c in [n for n in ast.walk(fn) if isinstance(n, ast.Call) and isinstance(n.func, ast.Name) and n.func.id in dcs]:
                srcs = {x.value.id for a in list(c.args) + [k.value for k in c.keywords] for x in ast.walk(a)
                        if isinstance(x, ast.Attribute) and isinstance(x.value, ast.Name) and ann.get(x.value.id) == c.func.id}
                if not srcs or any(k.arg is None for k in c.keywords):
                    continue
                ci = dcs[c.func.id]
                names = [f.name for f in ci.all_fields()]
                passed = set(names[: len(c.args)]) | {k.arg for k in c.keywords}
                out.append((m, fn, c, ci, [f for f in names if f not in passed]))
    return out, n_funcs
