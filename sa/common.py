"""Shared slots filled from the repository (terminal set, applicability, helpers)."""

from __future__ import annotations

import ast

from .cfg import walk_shallow
from .model import AnalysisError, FuncInfo, Program
from .protocol import ABSENT, ProtocolModel, Trace

# Which backend status an operation of a given type can be found in.  This is the
# service's lifecycle (docs/ + lambda_service enums), not derivable from the SDK
# source; cells outside it are reported in evidence but never judged.
APPLICABLE = {
    "STEP": ["STARTED", "PENDING", "READY", "SUCCEEDED", "FAILED"],
    "WAIT": ["STARTED", "SUCCEEDED"],  # CANCELLED needs a cancel API the SDK does not have
    "CALLBACK": ["STARTED", "SUCCEEDED", "FAILED", "TIMED_OUT"],
    "CHAINED_INVOKE": ["STARTED", "SUCCEEDED", "FAILED", "TIMED_OUT", "STOPPED"],
    "CONTEXT": ["STARTED", "SUCCEEDED", "FAILED"],
}


def applicable_cells(pm: ProtocolModel):
    for name, ci in pm.executors.items():
        ot = pm.executor_optype(ci)
        if ot not in APPLICABLE:
            raise AnalysisError(f"no applicability row for operation type {ot} ({name})")
        for st in [ABSENT, *APPLICABLE[ot]]:
            yield name, ci, ot, st


def terminal_statuses(prog: Program) -> set[str]:
    """The terminal set: the OperationStatus set literal used by the replay tracking of ExecutionState
    (track_replay or a helper it calls; any method of the class as a fallback)."""
    sc = prog.cls("state", "ExecutionState")

    def sets_in(fn):
        best: set[str] = set()
        for node in ast.walk(fn.node):
            if isinstance(node, (ast.Set, ast.Tuple, ast.List)):
                names = set()
                for e in node.elts:
                    if isinstance(e, ast.Attribute) and isinstance(e.value, ast.Name) and e.value.id == "OperationStatus":
                        names.add(e.attr)
                if len(names) > len(best):
                    best = names
        return best

    tr = sc.methods.get("track_replay")
    todo = [tr] if tr is not None else []
    seen = set()
    best: set[str] = set()
    while todo:
        f = todo.pop()
        if f.fq in seen:
            continue
        seen.add(f.fq)
        b = sets_in(f)
        if len(b) > len(best):
            best = b
        for _, m in self_method_calls(f.node):
            if m in sc.methods:
                todo.append(sc.methods[m])
    if len(best) < 2:
        for f in sc.methods.values():
            b = sets_in(f)
            if len(b) > len(best) and "SUCCEEDED" in b:
                best = b
    if len(best) < 2:
        raise AnalysisError("terminal status set not found in ExecutionState")
    return best


def construct_of(site: str) -> str:
    """'src/.../step.py:StepOperationExecutor.execute:222' -> 'operation/step.py:StepOperationExecutor.execute'"""
    parts = site.split(":")
    if len(parts) >= 2:
        path = parts[0].split("aws_durable_execution_sdk_python/")[-1]
        return f"{path}:{parts[1]}"
    return site


def fn_construct(fn: FuncInfo) -> str:
    return f"{fn.module.relpath.split('aws_durable_execution_sdk_python/')[-1]}:{fn.qualname}"


def trace_sig(t: Trace) -> str:
    b = t.brief()
    return " ; ".join(b["events"]) + " => " + (b.get("raises") or f"RETURN {b.get('returns')}")


def call_name(call: ast.Call) -> str:
    return ast.unparse(call.func)


def calls_in(fn_node, *, shallow=True):
    it = walk_shallow(fn_node) if shallow else ast.walk(fn_node)
    return [n for n in it if isinstance(n, ast.Call)]


def self_method_calls(fn_node):
    """(call, method_name) for every self.<m>(...) call in a function (nested defs excluded)."""
    out = []
    for n in walk_shallow(fn_node):
        if isinstance(n, ast.Call) and isinstance(n.func, ast.Attribute) and isinstance(n.func.value, ast.Name) \
                and n.func.value.id == "self":
            out.append((n, n.func.attr))
    return out


def methods_writing_operations(prog: Program) -> set[str]:
    """Names of ExecutionState methods that (transitively via self-calls) mutate self.operations."""
    sc = prog.cls("state", "ExecutionState")
    direct = set()
    MUT = {"update", "pop", "clear", "setdefault", "popitem", "__setitem__"}
    for name, fn in sc.methods.items():
        for n in ast.walk(fn.node):
            if isinstance(n, ast.Call) and isinstance(n.func, ast.Attribute) and n.func.attr in MUT \
                    and isinstance(n.func.value, ast.Attribute) and n.func.value.attr == "operations":
                direct.add(name)
            if isinstance(n, ast.Subscript) and isinstance(n.ctx, ast.Store) and isinstance(n.value, ast.Attribute) \
                    and n.value.attr == "operations":
                direct.add(name)
    direct.discard("__init__")
    changed = True
    while changed:
        changed = False
        for name, fn in sc.methods.items():
            if name in direct or name == "__init__":
                continue
            if any(m in direct for _, m in self_method_calls(fn.node)):
                direct.add(name)
                changed = True
    return direct


def at_least_one(v, pc) -> bool:
    """Abstract lower bound: is the value provably >= 1 on this path?"""
    from .values import Const, Sym

    if isinstance(v, Const):
        return isinstance(v.value, (int, float)) and not isinstance(v.value, bool) and v.value >= 1
    if isinstance(v, Sym):
        d = dict(pc)
        k = v.key()
        if d.get(f"{k} < 1") is False or d.get(f"{k} >= 1") is True or d.get(f"{k} <= 0") is False or d.get(f"{k} > 0") is True:
            return True
        if v.parts and v.parts[0] == "MAX":
            return any(at_least_one(x, pc) for x in v.parts[1])
    return False


def attempt_expr_ok(v, pc) -> bool:
    """attempt handed to a strategy / logger: recorded attempt + 1, or 1 when nothing is recorded."""
    from .values import Const, Sym

    if isinstance(v, Const):
        return v.value == 1
    if isinstance(v, Sym) and v.parts and v.parts[0] == "BINOP" and v.parts[1] == "+":
        l, r = v.parts[2], v.parts[3]
        if isinstance(r, Const) and r.value == 1 and isinstance(l, Sym) and l.k.endswith("step_details.attempt") and l.k.startswith("op@"):
            return True
        if isinstance(l, Const) and l.value == 1 and isinstance(r, Sym) and r.k.endswith("step_details.attempt"):
            return True
    return False
