"""Checker mutants: (property, rule expected to fire, edit).  Edits are exact-text
substitutions on a scratch copy; an edit whose anchor is gone is reported as skipped."""

MUTANTS: list[dict] = []


def M(id, prop, rule, file, old, new, expect="fire", desc=""):
    MUTANTS.append({"id": id, "property": prop, "rule": rule, "expect": expect, "desc": desc,
                    "edits": [{"file": file, "old": old, "new": new}]})


def M2(id, prop, rule, edits, expect="fire", desc=""):
    MUTANTS.append({"id": id, "property": prop, "rule": rule, "expect": expect, "desc": desc, "edits": edits})


# ----------------------------------------------------------------------------- C01
M("c01-step-drop-failed", "C01", "R1.terminal-short-circuit", "operation/step.py",
  """        if checkpointed_result.is_failed():
            # Have to throw the exact same error on replay as the checkpointed failure
            checkpointed_result.raise_callable_error()
""", "", desc="FAILED step falls through to re-execution")
M("c01-is-succeeded-wrong-status", "C01", "R1.terminal-short-circuit", "state.py",
  "        return op.status is OperationStatus.SUCCEEDED", "        return op.status is OperationStatus.STARTED")
M("c01-step-succeeded-reruns", "C01", "R", "operation/step.py",
  """            if checkpointed_result.result is None:
                return CheckResult.create_completed(None)  # type: ignore

            result: T = deserialize(
                serdes=self.config.serdes,
                data=checkpointed_result.result,""",
  """            if checkpointed_result.result is None:
                return CheckResult.create_is_ready_to_execute(checkpointed_result)

            result: T = deserialize(
                serdes=self.config.serdes,
                data=checkpointed_result.result,""", desc="SUCCEEDED step without payload is executed again")
M("c01-invoke-timed-out-suspends", "C01", "R2.recorded-outcome", "operation/invoke.py",
  """            checkpointed_result.is_failed()
            or checkpointed_result.is_timed_out()
            or checkpointed_result.is_stopped()""",
  """            checkpointed_result.is_failed()
            or checkpointed_result.is_stopped()""")
M("c01-second-writer", "C01", "R3.single-writer", "state.py",
  """            if self._replay_status == ReplayStatus.REPLAY:
                self._visited_operations.add(operation_id)""",
  """            if self._replay_status == ReplayStatus.REPLAY:
                self.operations.pop(operation_id, None)
                self._visited_operations.add(operation_id)""")
M("c01-wfc-returns-raw-payload", "C01", "R2.recorded-outcome", "operation/wait_for_condition.py",
  """            result = deserialize(
                serdes=self.config.serdes,
                data=checkpointed_result.result,
                operation_id=self.operation_identifier.operation_id,
                durable_execution_arn=self.state.durable_execution_arn,
            )
            return CheckResult.create_completed(result)""",
  """            return CheckResult.create_completed(self.config.initial_state)""")
M("c01-pagination-drops-marker", "C01", "R4.pagination-loop", "state.py",
  "            next_marker = output.next_marker\n", "            next_marker = None\n")
M("c01-child-ignores-failed", "C01", "R", "operation/child.py",
  """        if checkpointed_result.is_failed():
            checkpointed_result.raise_callable_error()

        # Create START checkpoint if not exists""",
  """        # Create START checkpoint if not exists""")
M("c01-context-step-fresh-state", "C01", "R5.through-template", "context.py",
  """        executor: StepOperationExecutor[T] = StepOperationExecutor(
            func=func,
            config=config,
            state=self.state,
            operation_identifier=OperationIdentifier(
                operation_id=operation_id,""",
  """        executor: StepOperationExecutor[T] = StepOperationExecutor(
            func=func,
            config=config,
            state=self.state,
            operation_identifier=OperationIdentifier(
                operation_id=self._create_step_id(),""")
# benign variants
M("c01-benign-reorder-terminal-branches", "C01", "", "operation/wait_for_condition.py",
  """        # Terminal failure
        if checkpointed_result.is_failed():
            checkpointed_result.raise_callable_error()

        # Pending retry
        if checkpointed_result.is_pending():
            scheduled_timestamp = checkpointed_result.get_next_attempt_timestamp()
            suspend_with_optional_resume_timestamp(
                msg=f"wait_for_condition {self.operation_identifier.name or self.operation_identifier.operation_id} will retry at timestamp {scheduled_timestamp}",
                datetime_timestamp=scheduled_timestamp,
            )
""",
  """        # Pending retry
        if checkpointed_result.is_pending():
            scheduled_timestamp = checkpointed_result.get_next_attempt_timestamp()
            suspend_with_optional_resume_timestamp(
                msg=f"wait_for_condition {self.operation_identifier.name or self.operation_identifier.operation_id} will retry at timestamp {scheduled_timestamp}",
                datetime_timestamp=scheduled_timestamp,
            )

        # Terminal failure
        if checkpointed_result.is_failed():
            checkpointed_result.raise_callable_error()
""", expect="silent")


def _extract_helper(src):
    old = """        if checkpointed_result.is_failed():
            # Have to throw the exact same error on replay as the checkpointed failure
            checkpointed_result.raise_callable_error()
"""
    if src.count(old) != 1 or "    def execute(self, checkpointed_result" not in src:
        return None
    src = src.replace(old, "        self._raise_if_failed(checkpointed_result)\n")
    helper = """    def _raise_if_failed(self, cp):
        if cp.is_failed():
            cp.raise_callable_error()

"""
    return src.replace("    def execute(self, checkpointed_result", helper + "    def execute(self, checkpointed_result", 1)


M2("c01-benign-helper", "C01", "", [{"file": "operation/step.py", "fn": _extract_helper}], expect="silent")
