"""Checker mutants: (property, rule expected to fire, edit).  Edits are exact-text
substitutions on a scratch copy; an edit whose anchor is gone is reported as skipped."""

MUTANTS: list[dict] = []


def M(id, prop, rule, file, old, new, expect="fire", desc=""):
    MUTANTS.append({"id": id, "property": prop, "rule": rule, "expect": expect, "desc": desc,
                    "edits": [{"file": file, "old": old, "new": new}]})


def M2(id, prop, rule, edits, expect="fire", desc=""):
    MUTANTS.append({"id": id, "property": prop, "rule": rule, "expect": expect, "desc": desc, "edits": edits})


# ----------------------------------------------------------------------------- C01
M("c01-step-drop-failed", "C01", "R1.terminal-short-circuit", "operation/step.py",
  """        if checkpointed_result.is_failed():
            # Have to throw the exact same error on replay as the checkpointed failure
            checkpointed_result.raise_callable_error()
""", "", desc="FAILED step falls through to re-execution")
M("c01-is-succeeded-wrong-status", "C01", "R1.terminal-short-circuit", "state.py",
  "        return op.status is OperationStatus.SUCCEEDED", "        return op.status is OperationStatus.STARTED")
M("c01-step-succeeded-reruns", "C01", "R", "operation/step.py",
  """            if checkpointed_result.result is None:
                return CheckResult.create_completed(None)  # type: ignore

            result: T = deserialize(
                serdes=self.config.serdes,
                data=checkpointed_result.result,""",
  """            if checkpointed_result.result is None:
                return CheckResult.create_is_ready_to_execute(checkpointed_result)

            result: T = deserialize(
                serdes=self.config.serdes,
                data=checkpointed_result.result,""", desc="SUCCEEDED step without payload is executed again")
M("c01-invoke-timed-out-suspends", "C01", "R2.recorded-outcome", "operation/invoke.py",
  """            checkpointed_result.is_failed()
            or checkpointed_result.is_timed_out()
            or checkpointed_result.is_stopped()""",
  """            checkpointed_result.is_failed()
            or checkpointed_result.is_stopped()""")
M("c01-second-writer", "C01", "R3.single-writer", "state.py",
  """            if self._replay_status == ReplayStatus.REPLAY:
                self._visited_operations.add(operation_id)""",
  """            if self._replay_status == ReplayStatus.REPLAY:
                self.operations.pop(operation_id, None)
                self._visited_operations.add(operation_id)""")
M("c01-wfc-returns-raw-payload", "C01", "R2.recorded-outcome", "operation/wait_for_condition.py",
  """            result = deserialize(
                serdes=self.config.serdes,
                data=checkpointed_result.result,
                operation_id=self.operation_identifier.operation_id,
                durable_execution_arn=self.state.durable_execution_arn,
            )
            return CheckResult.create_completed(result)""",
  """            return CheckResult.create_completed(self.config.initial_state)""")
M("c01-pagination-drops-marker", "C01", "R4.pagination-loop", "state.py",
  "            next_marker = output.next_marker\n", "            next_marker = None\n")
M("c01-child-ignores-failed", "C01", "R", "operation/child.py",
  """        if checkpointed_result.is_failed():
            checkpointed_result.raise_callable_error()

        # Create START checkpoint if not exists""",
  """        # Create START checkpoint if not exists""")
M("c01-context-step-fresh-state", "C01", "R5.through-template", "context.py",
  """        executor: StepOperationExecutor[T] = StepOperationExecutor(
            func=func,
            config=config,
            state=self.state,
            operation_identifier=OperationIdentifier(
                operation_id=operation_id,""",
  """        executor: StepOperationExecutor[T] = StepOperationExecutor(
            func=func,
            config=config,
            state=self.state,
            operation_identifier=OperationIdentifier(
                operation_id=self._create_step_id(),""")
# benign variants
M("c01-benign-reorder-terminal-branches", "C01", "", "operation/wait_for_condition.py",
  """        # Terminal failure
        if checkpointed_result.is_failed():
            checkpointed_result.raise_callable_error()

        # Pending retry
        if checkpointed_result.is_pending():
            scheduled_timestamp = checkpointed_result.get_next_attempt_timestamp()
            suspend_with_optional_resume_timestamp(
                msg=f"wait_for_condition {self.operation_identifier.name or self.operation_identifier.operation_id} will retry at timestamp {scheduled_timestamp}",
                datetime_timestamp=scheduled_timestamp,
            )
""",
  """        # Pending retry
        if checkpointed_result.is_pending():
            scheduled_timestamp = checkpointed_result.get_next_attempt_timestamp()
            suspend_with_optional_resume_timestamp(
                msg=f"wait_for_condition {self.operation_identifier.name or self.operation_identifier.operation_id} will retry at timestamp {scheduled_timestamp}",
                datetime_timestamp=scheduled_timestamp,
            )

        # Terminal failure
        if checkpointed_result.is_failed():
            checkpointed_result.raise_callable_error()
""", expect="silent")


def _extract_helper(src):
    old = """        if checkpointed_result.is_failed():
            # Have to throw the exact same error on replay as the checkpointed failure
            checkpointed_result.raise_callable_error()
"""
    if src.count(old) != 1 or "    def execute(self, checkpointed_result" not in src:
        return None
    src = src.replace(old, "        self._raise_if_failed(checkpointed_result)\n")
    helper = """    def _raise_if_failed(self, cp):
        if cp.is_failed():
            cp.raise_callable_error()

"""
    return src.replace("    def execute(self, checkpointed_result", helper + "    def execute(self, checkpointed_result", 1)


M2("c01-benign-helper", "C01", "", [{"file": "operation/step.py", "fn": _extract_helper}], expect="silent")

# ----------------------------------------------------------------------------- C02
M("c02-step-raises-original", "C02", "R1.exception-class-agreement", "operation/step.py",
  "        raise error_object.to_callable_runtime_error()\n", "        raise error\n")
M("c02-child-des-default-serdes", "C02", "R2.serdes-symmetry", "operation/child.py",
  """            result: T = deserialize(
                serdes=self.config.serdes,""", """            result: T = deserialize(
                serdes=None,""")
M("c02-callback-raises-on-failed", "C02", "R3.deferred-callback-errors", "operation/callback.py",
  """        if checkpointed_result.is_existent():
            if (""", """        if checkpointed_result.is_existent():
            if checkpointed_result.is_failed():
                checkpointed_result.raise_callable_error()
            if (""")
M("c02-step-records-other-payload", "C02", "R2.payload-is-returned-value", "operation/step.py",
  """                identifier=self.operation_identifier,
                payload=serialized_result,
            )""", """                identifier=self.operation_identifier,
                payload="",
            )""")
M("c02-error-fields-swapped", "C02", "R4.error-field-agreement", "lambda_service.py",
  """            message=self.message,
            error_type=self.type,
            data=self.data,""", """            message=self.message,
            error_type=self.message,
            data=self.data,""")
M("c02-wfc-restores-with-default", "C02", "R2.poll-state-serdes", "operation/wait_for_condition.py",
  """                current_state = deserialize(
                    serdes=self.config.serdes,""", """                current_state = deserialize(
                    serdes=None,""")
M("c02-child-raises-original", "C02", "R1.exception-class-agreement", "operation/child.py",
  "            raise error_object.to_callable_runtime_error() from e\n", "            raise\n")
M("c02-benign-local-rename", "C02", "", "operation/step.py",
  "        raise error_object.to_callable_runtime_error()\n",
  "        runtime_error = error_object.to_callable_runtime_error()\n        raise runtime_error\n", expect="silent")

# ----------------------------------------------------------------------------- C03
M("c03-step-succeed-async", "C03", "R1.record-before-outcome", "operation/step.py",
  "            self.state.create_checkpoint(operation_update=success_operation)\n",
  "            self.state.create_checkpoint(operation_update=success_operation, is_sync=False)\n")
M("c03-wait-start-async", "C03", "R1.record-before-outcome", "operation/wait.py",
  "            self.state.create_checkpoint(operation_update=operation, is_sync=True)",
  "            self.state.create_checkpoint(operation_update=operation, is_sync=False)")
M("c03-wfc-retry-async", "C03", "R1.record-before-outcome", "operation/wait_for_condition.py",
  "            self.state.create_checkpoint(operation_update=retry_operation)\n",
  "            self.state.create_checkpoint(operation_update=retry_operation, is_sync=False)\n")
M("c03-child-fail-async", "C03", "R1.record-before-outcome", "operation/child.py",
  "            self.state.create_checkpoint(operation_update=fail_operation)\n",
  "            self.state.create_checkpoint(operation_update=fail_operation, is_sync=False)\n")
M("c03-consumer-drop-merge", "C03", "R3.", "state.py",
  """                    self.fetch_paginated_operations(
                        output.new_execution_state.operations,
                        output.checkpoint_token,
                        output.new_execution_state.next_marker,
                    )
""", "")
M("c03-lifo-queue", "C03", "R4.fifo-queue", "state.py",
  "        self._checkpoint_queue: queue.Queue[QueuedOperation] = queue.Queue()",
  "        self._checkpoint_queue: queue.Queue[QueuedOperation] = queue.LifoQueue()")
M("c03-empty-checkpoint-not-waited", "C03", "R2.put-then-wait-same-event", "state.py",
  "        if is_sync:\n            logger.debug(\"Enqueued checkpoint operation for synchronous processing\")",
  "        if is_sync and operation_update is not None:\n            logger.debug(\"Enqueued checkpoint operation for synchronous processing\")")
M("c03-wrapper-large-result-async", "C03", "R5.wrapper-success-after-record", "execution.py",
  """                        execution_state.create_checkpoint(
                            success_operation, is_sync=True
                        )""", """                        execution_state.create_checkpoint(
                            success_operation, is_sync=False
                        )""")
M("c03-step-catches-baseexception", "C03", "R1.record-before-outcome", "operation/step.py",
  "        except Exception as e:\n            if isinstance(e, ExecutionError):",
  "        except BaseException as e:\n            if isinstance(e, ExecutionError):")
M("c03-default-async", "C03", "R", "state.py",
  "        is_sync: bool = True,  # noqa: FBT001, FBT002", "        is_sync: bool = False,  # noqa: FBT001, FBT002")
M("c03-success-set-before-merge", "C03", "R3.set-after-api-and-merge", "state.py",
  """                    # Fetch new operations from the API before unblocking sync waiters
                    self.fetch_paginated_operations(
                        output.new_execution_state.operations,
                        output.checkpoint_token,
                        output.new_execution_state.next_marker,
                    )

                    # Signal completion for any synchronous operations
                    for queued_op in batch:
                        if queued_op.completion_event is not None:
                            queued_op.completion_event.set()
""", """                    # Signal completion for any synchronous operations
                    for queued_op in batch:
                        if queued_op.completion_event is not None:
                            queued_op.completion_event.set()

                    self.fetch_paginated_operations(
                        output.new_execution_state.operations,
                        output.checkpoint_token,
                        output.new_execution_state.next_marker,
                    )
""")
M("c03-benign-explicit-sync", "C03", "", "operation/step.py",
  "            self.state.create_checkpoint(operation_update=success_operation)\n",
  "            self.state.create_checkpoint(operation_update=success_operation, is_sync=True)\n", expect="silent")

# ----------------------------------------------------------------------------- C04
M("c04-start-only-when-absent", "C04", "R1.sync-start-before-function", "operation/step.py",
  """        if not checkpointed_result.is_existent() or (
            checkpointed_result.is_started_or_ready()
            and not checkpointed_result.is_started()
        ):""", """        if not checkpointed_result.is_existent():""", desc="the repaired defect, re-introduced")
M("c04-start-async-for-at-most-once", "C04", "R1.sync-start-before-function", "operation/step.py",
  """            is_sync: bool = (
                self.config.step_semantics is StepSemantics.AT_MOST_ONCE_PER_RETRY
            )""", """            is_sync: bool = False""")
M("c04-started-reexecutes", "C04", "R", "operation/step.py",
  """            and self.config.step_semantics is StepSemantics.AT_MOST_ONCE_PER_RETRY
        ):
            # Step was previously interrupted""", """            and self.config.step_semantics is StepSemantics.AT_LEAST_ONCE_PER_RETRY
            and False
        ):
            # Step was previously interrupted""")
M("c04-no-refresh-check", "C04", "R3.refreshed-status-must-be-started", "operation/step.py",
  """                if not refreshed_result.is_started():""", """                if not refreshed_result.is_existent():""")
M("c04-interrupted-error-swapped", "C04", "R2.started-means-interrupted", "operation/step.py",
  """            self.retry_handler(StepInterruptedError(msg), checkpointed_result)""",
  """            self.retry_handler(ExecutionError(msg), checkpointed_result)""")
M("c04-benign-inverted-flag", "C04", "", "operation/step.py",
  """            is_sync: bool = (
                self.config.step_semantics is StepSemantics.AT_MOST_ONCE_PER_RETRY
            )""", """            is_sync: bool = (
                self.config.step_semantics is not StepSemantics.AT_LEAST_ONCE_PER_RETRY
            )""", expect="silent")
