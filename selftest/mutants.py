"""Checker mutants: (property, rule expected to fire, edit).  Edits are exact-text
substitutions on a scratch copy; an edit whose anchor is gone is reported as skipped."""

MUTANTS: list[dict] = []


def M(id, prop, rule, file, old, new, expect="fire", desc=""):
    MUTANTS.append({"id": id, "property": prop, "rule": rule, "expect": expect, "desc": desc,
                    "edits": [{"file": file, "old": old, "new": new}]})


def M2(id, prop, rule, edits, expect="fire", desc=""):
    MUTANTS.append({"id": id, "property": prop, "rule": rule, "expect": expect, "desc": desc, "edits": edits})


# ----------------------------------------------------------------------------- C01
M("c01-step-drop-failed", "C01", "R1.terminal-short-circuit", "operation/step.py",
  """        if checkpointed_result.is_failed():
            # Have to throw the exact same error on replay as the checkpointed failure
            checkpointed_result.raise_callable_error()
""", "", desc="FAILED step falls through to re-execution")
M("c01-is-succeeded-wrong-status", "C01", "R1.terminal-short-circuit", "state.py",
  "        return op.status is OperationStatus.SUCCEEDED", "        return op.status is OperationStatus.STARTED")
M("c01-step-succeeded-reruns", "C01", "R", "operation/step.py",
  """            if checkpointed_result.result is None:
                return CheckResult.create_completed(None)  # type: ignore

            result: T = deserialize(
                serdes=self.config.serdes,
                data=checkpointed_result.result,""",
  """            if checkpointed_result.result is None:
                return CheckResult.create_is_ready_to_execute(checkpointed_result)

            result: T = deserialize(
                serdes=self.config.serdes,
                data=checkpointed_result.result,""", desc="SUCCEEDED step without payload is executed again")
M("c01-invoke-timed-out-suspends", "C01", "R2.recorded-outcome", "operation/invoke.py",
  """            checkpointed_result.is_failed()
            or checkpointed_result.is_timed_out()
            or checkpointed_result.is_stopped()""",
  """            checkpointed_result.is_failed()
            or checkpointed_result.is_stopped()""")
M("c01-second-writer", "C01", "R3.single-writer", "state.py",
  """            if self._replay_status == ReplayStatus.REPLAY:
                self._visited_operations.add(operation_id)""",
  """            if self._replay_status == ReplayStatus.REPLAY:
                self.operations.pop(operation_id, None)
                self._visited_operations.add(operation_id)""")
M("c01-wfc-returns-raw-payload", "C01", "R2.recorded-outcome", "operation/wait_for_condition.py",
  """            result = deserialize(
                serdes=self.config.serdes,
                data=checkpointed_result.result,
                operation_id=self.operation_identifier.operation_id,
                durable_execution_arn=self.state.durable_execution_arn,
            )
            return CheckResult.create_completed(result)""",
  """            return CheckResult.create_completed(self.config.initial_state)""")
M("c01-pagination-drops-marker", "C01", "R4.pagination", "state.py",
  "            next_marker = output.next_marker\n", "            next_marker = None\n")
M("c01-child-ignores-failed", "C01", "R", "operation/child.py",
  """        if checkpointed_result.is_failed():
            checkpointed_result.raise_callable_error()

        # Create START checkpoint if not exists""",
  """        # Create START checkpoint if not exists""")
M("c01-context-step-fresh-state", "C01", "R5.through-template", "context.py",
  """        executor: StepOperationExecutor[T] = StepOperationExecutor(
            func=func,
            config=config,
            state=self.state,
            operation_identifier=OperationIdentifier(
                operation_id=operation_id,""",
  """        executor: StepOperationExecutor[T] = StepOperationExecutor(
            func=func,
            config=config,
            state=self.state,
            operation_identifier=OperationIdentifier(
                operation_id=self._create_step_id(),""")
# benign variants
M("c01-benign-reorder-terminal-branches", "C01", "", "operation/wait_for_condition.py",
  """        # Terminal failure
        if checkpointed_result.is_failed():
            checkpointed_result.raise_callable_error()

        # Pending retry
        if checkpointed_result.is_pending():
            scheduled_timestamp = checkpointed_result.get_next_attempt_timestamp()
            suspend_with_optional_resume_timestamp(
                msg=f"wait_for_condition {self.operation_identifier.name or self.operation_identifier.operation_id} will retry at timestamp {scheduled_timestamp}",
                datetime_timestamp=scheduled_timestamp,
            )
""",
  """        # Pending retry
        if checkpointed_result.is_pending():
            scheduled_timestamp = checkpointed_result.get_next_attempt_timestamp()
            suspend_with_optional_resume_timestamp(
                msg=f"wait_for_condition {self.operation_identifier.name or self.operation_identifier.operation_id} will retry at timestamp {scheduled_timestamp}",
                datetime_timestamp=scheduled_timestamp,
            )

        # Terminal failure
        if checkpointed_result.is_failed():
            checkpointed_result.raise_callable_error()
""", expect="silent")


def _extract_helper(src):
    old = """        if checkpointed_result.is_failed():
            # Have to throw the exact same error on replay as the checkpointed failure
            checkpointed_result.raise_callable_error()
"""
    if src.count(old) != 1 or "    def execute(self, checkpointed_result" not in src:
        return None
    src = src.replace(old, "        self._raise_if_failed(checkpointed_result)\n")
    helper = """    def _raise_if_failed(self, cp):
        if cp.is_failed():
            cp.raise_callable_error()

"""
    return src.replace("    def execute(self, checkpointed_result", helper + "    def execute(self, checkpointed_result", 1)


M2("c01-benign-helper", "C01", "", [{"file": "operation/step.py", "fn": _extract_helper}], expect="silent")

# ----------------------------------------------------------------------------- C02
M("c02-step-raises-original", "C02", "R1.exception-class-agreement", "operation/step.py",
  "        raise error_object.to_callable_runtime_error()\n", "        raise error\n")
M("c02-child-des-default-serdes", "C02", "R2.serdes-symmetry", "operation/child.py",
  """            result: T = deserialize(
                serdes=self.config.serdes,""", """            result: T = deserialize(
                serdes=None,""")
M("c02-callback-raises-on-failed", "C02", "R3.deferred-callback-errors", "operation/callback.py",
  """        if checkpointed_result.is_existent():
            if (""", """        if checkpointed_result.is_existent():
            if checkpointed_result.is_failed():
                checkpointed_result.raise_callable_error()
            if (""")
M("c02-step-records-other-payload", "C02", "R2.payload-is-returned-value", "operation/step.py",
  """                identifier=self.operation_identifier,
                payload=serialized_result,
            )""", """                identifier=self.operation_identifier,
                payload="",
            )""")
M("c02-error-fields-swapped", "C02", "R4.error-field-agreement", "lambda_service.py",
  """            message=self.message,
            error_type=self.type,
            data=self.data,""", """            message=self.message,
            error_type=self.message,
            data=self.data,""")
M("c02-wfc-restores-with-default", "C02", "R2.poll-state-serdes", "operation/wait_for_condition.py",
  """                current_state = deserialize(
                    serdes=self.config.serdes,""", """                current_state = deserialize(
                    serdes=None,""")
M("c02-child-raises-original", "C02", "R1.exception-class-agreement", "operation/child.py",
  "            # dataplane.\n            if isinstance(e, InvocationError):\n                raise\n            raise error_object.to_callable_runtime_error() from e\n",
  "            # dataplane.\n            if isinstance(e, InvocationError):\n                raise\n            raise\n")
M("c02-benign-local-rename", "C02", "", "operation/step.py",
  "        raise error_object.to_callable_runtime_error()\n",
  "        runtime_error = error_object.to_callable_runtime_error()\n        raise runtime_error\n", expect="silent")

# ----------------------------------------------------------------------------- C03
M("c03-step-succeed-async", "C03", "R1.record-before-outcome", "operation/step.py",
  "            self.state.create_checkpoint(operation_update=success_operation)\n",
  "            self.state.create_checkpoint(operation_update=success_operation, is_sync=False)\n")
M("c03-wait-start-async", "C03", "R1.record-before-outcome", "operation/wait.py",
  "            self.state.create_checkpoint(operation_update=operation, is_sync=True)",
  "            self.state.create_checkpoint(operation_update=operation, is_sync=False)")
M("c03-wfc-retry-async", "C03", "R1.record-before-outcome", "operation/wait_for_condition.py",
  "            self.state.create_checkpoint(operation_update=retry_operation)\n",
  "            self.state.create_checkpoint(operation_update=retry_operation, is_sync=False)\n")
M("c03-child-fail-async", "C03", "R1.record-before-outcome", "operation/child.py",
  "            self.state.create_checkpoint(operation_update=fail_operation)\n",
  "            self.state.create_checkpoint(operation_update=fail_operation, is_sync=False)\n")
M("c03-consumer-drop-merge", "C03", "R3.", "state.py",
  """                    self.fetch_paginated_operations(
                        output.new_execution_state.operations,
                        output.checkpoint_token,
                        output.new_execution_state.next_marker,
                    )
""", "")
M("c03-lifo-queue", "C03", "R4.fifo-queue", "state.py",
  "        self._checkpoint_queue: queue.Queue[QueuedOperation] = queue.Queue()",
  "        self._checkpoint_queue: queue.Queue[QueuedOperation] = queue.LifoQueue()")
M("c03-empty-checkpoint-not-waited", "C03", "R2.put-then-wait-same-event", "state.py",
  "        if is_sync:\n            logger.debug(\"Enqueued checkpoint operation for synchronous processing\")",
  "        if is_sync and operation_update is not None:\n            logger.debug(\"Enqueued checkpoint operation for synchronous processing\")")
M("c03-wrapper-large-result-async", "C03", "R5.wrapper-success-after-record", "execution.py",
  """                        execution_state.create_checkpoint(
                            success_operation, is_sync=True
                        )""", """                        execution_state.create_checkpoint(
                            success_operation, is_sync=False
                        )""")
M("c03-step-catches-baseexception", "C03", "R1.record-before-outcome", "operation/step.py",
  "        except Exception as e:\n            if isinstance(e, ExecutionError):",
  "        except BaseException as e:\n            if isinstance(e, ExecutionError):")
M("c03-default-async", "C03", "R", "state.py",
  "        is_sync: bool = True,  # noqa: FBT001, FBT002", "        is_sync: bool = False,  # noqa: FBT001, FBT002")
M("c03-success-set-before-merge", "C03", "R3.set-after-api-and-merge", "state.py",
  """                    # Fetch new operations from the API before unblocking sync waiters
                    self.fetch_paginated_operations(
                        output.new_execution_state.operations,
                        output.checkpoint_token,
                        output.new_execution_state.next_marker,
                    )

                    # Signal completion for any synchronous operations
                    for queued_op in batch:
                        if queued_op.completion_event is not None:
                            queued_op.completion_event.set()
""", """                    # Signal completion for any synchronous operations
                    for queued_op in batch:
                        if queued_op.completion_event is not None:
                            queued_op.completion_event.set()

                    self.fetch_paginated_operations(
                        output.new_execution_state.operations,
                        output.checkpoint_token,
                        output.new_execution_state.next_marker,
                    )
""")
M("c03-benign-explicit-sync", "C03", "", "operation/step.py",
  "            self.state.create_checkpoint(operation_update=success_operation)\n",
  "            self.state.create_checkpoint(operation_update=success_operation, is_sync=True)\n", expect="silent")

# ----------------------------------------------------------------------------- C04
M("c04-start-only-when-absent", "C04", "R1.sync-start-before-function", "operation/step.py",
  """        if not checkpointed_result.is_existent() or (
            checkpointed_result.is_started_or_ready()
            and not checkpointed_result.is_started()
        ):""", """        if not checkpointed_result.is_existent():""", desc="the repaired defect, re-introduced")
M("c04-start-async-for-at-most-once", "C04", "R1.sync-start-before-function", "operation/step.py",
  """            is_sync: bool = (
                self.config.step_semantics is StepSemantics.AT_MOST_ONCE_PER_RETRY
            )""", """            is_sync: bool = False""")
M("c04-started-reexecutes", "C04", "R", "operation/step.py",
  """            and self.config.step_semantics is StepSemantics.AT_MOST_ONCE_PER_RETRY
        ):
            # Step was previously interrupted""", """            and self.config.step_semantics is StepSemantics.AT_LEAST_ONCE_PER_RETRY
            and False
        ):
            # Step was previously interrupted""")
M("c04-no-refresh-check", "C04", "R3.refreshed-status-must-be-started", "operation/step.py",
  """                if not refreshed_result.is_started():""", """                if not refreshed_result.is_existent():""")
M("c04-interrupted-error-swapped", "C04", "R2.started-means-interrupted", "operation/step.py",
  """            self.retry_handler(StepInterruptedError(msg), checkpointed_result)""",
  """            self.retry_handler(ExecutionError(msg), checkpointed_result)""")
M("c04-benign-inverted-flag", "C04", "", "operation/step.py",
  """            is_sync: bool = (
                self.config.step_semantics is StepSemantics.AT_MOST_ONCE_PER_RETRY
            )""", """            is_sync: bool = (
                self.config.step_semantics is not StepSemantics.AT_LEAST_ONCE_PER_RETRY
            )""", expect="silent")

# ----------------------------------------------------------------------------- C11
M("c11-start-when-started", "C11", "R1.lifecycle", "operation/invoke.py",
  "        if not checkpointed_result.is_existent():\n            serialized_payload",
  "        if not checkpointed_result.is_succeeded():\n            serialized_payload")
M("c11-wfc-uses-step-factory", "C11", "R", "operation/wait_for_condition.py",
  "            start_operation = OperationUpdate.create_wait_for_condition_start(",
  "            start_operation = OperationUpdate.create_wait_start(")
M("c11-child-start-after-body", "C11", "R", "operation/child.py",
  """        if not checkpointed_result.is_existent():
            start_operation: OperationUpdate = OperationUpdate.create_context_start(""",
  """        if False:
            start_operation: OperationUpdate = OperationUpdate.create_context_start(""")
M("c11-step-fail-then-succeed", "C11", "R1.lifecycle", "operation/step.py",
  """        self.state.create_checkpoint(operation_update=fail_operation)

        if isinstance(error, StepInterruptedError):""",
  """        self.state.create_checkpoint(operation_update=fail_operation)
        self.state.create_checkpoint(operation_update=fail_operation)

        if isinstance(error, StepInterruptedError):""")
M("c11-factory-drops-parent", "C11", "R2.kind-and-identity", "lambda_service.py",
  """        \"\"\"Create an instance of OperationUpdate for type: STEP, action: START.\"\"\"
        return cls(
            operation_id=identifier.operation_id,
            parent_id=identifier.parent_id,
            operation_type=OperationType.STEP,
            sub_type=OperationSubType.STEP,""",
  """        \"\"\"Create an instance of OperationUpdate for type: STEP, action: START.\"\"\"
        return cls(
            operation_id=identifier.operation_id,
            operation_type=OperationType.STEP,
            sub_type=OperationSubType.STEP,""")
M("c11-wait-restarts-when-started", "C11", "R1.lifecycle", "operation/wait.py",
  "        if not checkpointed_result.is_existent():", "        if not checkpointed_result.is_succeeded():")

# ----------------------------------------------------------------------------- C12
M("c12-attempt-off-by-one", "C12", "R1.attempt-number", "operation/step.py",
  "        retry_decision: RetryDecision = retry_strategy(error, retry_attempt + 1)",
  "        retry_decision: RetryDecision = retry_strategy(error, retry_attempt)")
M("c12-drop-clamp", "C12", "R2.decision-implies-effect", "operation/step.py",
  "                delay_seconds = 1\n\n            retry_operation", "                pass\n\n            retry_operation")
M("c12-retry-async", "C12", "R2.decision-implies-effect", "operation/step.py",
  "            self.state.create_checkpoint(operation_update=retry_operation)\n",
  "            self.state.create_checkpoint(operation_update=retry_operation, is_sync=False)\n")
M("c12-pending-runs", "C12", "R3.pending-suspends", "operation/step.py",
  "        if checkpointed_result.is_pending():\n            scheduled_timestamp", "        if False:\n            scheduled_timestamp")
M("c12-packaged-no-floor", "C12", "R4.packaged-strategy-shape", "retries.py",
  "        final_delay: int = max(1, math.ceil(delay_with_jitter))", "        final_delay: int = math.ceil(delay_with_jitter)")
M("c12-packaged-no-cutoff", "C12", "R4.packaged-strategy-shape", "retries.py",
  "        if attempts_made >= config.max_attempts:\n            return RetryDecision.no_retry()\n", "")
M("c12-packaged-no-cap", "C12", "R4.packaged-strategy-shape", "retries.py",
  """            base_delay: float = min(
                config.initial_delay_seconds
                * (config.backoff_rate ** (attempts_made - 1)),
                config.max_delay_seconds,
            )""", """            base_delay: float = config.initial_delay_seconds * (config.backoff_rate ** (attempts_made - 1))""")
M("c12-wait-strategy-no-floor", "C12", "R4.packaged-strategy-shape", "waits.py",
  "        final_delay: int = max(1, math.ceil(delay_with_jitter))", "        final_delay: int = math.ceil(delay_with_jitter)")
M("c12-decline-but-suspend", "C12", "R2.decision-implies-effect", "operation/step.py",
  "        if should_retry:\n            logger.debug(\n                \"Retrying step", "        if should_retry or True:\n            logger.debug(\n                \"Retrying step")
M("c12-benign-clamp-with-max", "C12", "", "operation/step.py",
  "                delay_seconds = 1\n\n            retry_operation", "                delay_seconds = max(1, delay_seconds)\n\n            retry_operation", expect="silent")
M("c12-benign-cutoff-inverted", "C12", "", "retries.py",
  "        if attempts_made >= config.max_attempts:\n            return RetryDecision.no_retry()\n",
  "        if not attempts_made < config.max_attempts:\n            return RetryDecision.no_retry()\n", expect="silent")

# ----------------------------------------------------------------------------- C13
M("c13-always-initial-state", "C13", "R1.state-threading", "operation/wait_for_condition.py",
  "            checkpointed_result.is_started_or_ready()\n            and checkpointed_result.result is not None",
  "            checkpointed_result.is_started()\n            and checkpointed_result.result is not None")
M("c13-records-old-state", "C13", "R3.decision-implies-effect", "operation/wait_for_condition.py",
  """            serialized_state = serialize(
                serdes=self.config.serdes,
                value=new_state,""", """            serialized_state = serialize(
                serdes=self.config.serdes,
                value=current_state,""")
M("c13-returns-old-state", "C13", "R3.decision-implies-effect", "operation/wait_for_condition.py",
  "                return new_state\n", "                return current_state\n")
M("c13-attempt-not-incremented", "C13", "R2.strategy-arguments", "operation/wait_for_condition.py",
  "            attempt = checkpointed_result.operation.step_details.attempt + 1",
  "            attempt = checkpointed_result.operation.step_details.attempt")
M("c13-drop-clamp", "C13", "R3.decision-implies-effect", "operation/wait_for_condition.py",
  "                delay_seconds = 1\n\n            retry_operation", "                pass\n\n            retry_operation")
M("c13-decision-inverted", "C13", "R3.decision-implies-effect", "operation/wait_for_condition.py",
  "            if not decision.should_continue:", "            if decision.should_continue:")
M("c13-strategy-sees-old-state", "C13", "R2.strategy-arguments", "operation/wait_for_condition.py",
  """            decision: WaitForConditionDecision = self.config.wait_strategy(
                new_state, attempt
            )""", """            decision: WaitForConditionDecision = self.config.wait_strategy(
                current_state, attempt
            )""")
M("c13-pending-polls", "C13", "R4.pending-suspends", "operation/wait_for_condition.py",
  "        if checkpointed_result.is_pending():\n            scheduled_timestamp", "        if False:\n            scheduled_timestamp")
M("c13-benign-rename", "C13", "", "operation/wait_for_condition.py",
  "                return new_state\n", "                final_state = new_state\n                return final_state\n", expect="silent")

# ----------------------------------------------------------------------------- C14
M("c14-timed-out-treated-as-pending", "C14", "R2.callback-result", "context.py",
  """            or checkpointed_result.is_cancelled()
            or checkpointed_result.is_timed_out()
            or checkpointed_result.is_stopped()""", """            or checkpointed_result.is_cancelled()
            or checkpointed_result.is_stopped()""")
M("c14-result-ignores-serdes", "C14", "R2.callback-result", "context.py",
  "                serdes=self.serdes if self.serdes is not None else PASS_THROUGH_SERDES,",
  "                serdes=None,")
M("c14-create-callback-async", "C14", "R1.create-callback", "operation/callback.py",
  "        self.state.create_checkpoint(operation_update=create_callback_operation)",
  "        self.state.create_checkpoint(operation_update=create_callback_operation, is_sync=False)")
M("c14-invoke-stopped-suspends", "C14", "R3.invoke", "operation/invoke.py",
  """            or checkpointed_result.is_timed_out()
            or checkpointed_result.is_stopped()""", """            or checkpointed_result.is_timed_out()""")
M("c14-invoke-raw-payload", "C14", "R3.invoke", "operation/invoke.py",
  "                payload=serialized_payload,", "                payload=self.payload,")
M("c14-invoke-wrong-target", "C14", "R3.invoke", "operation/invoke.py",
  "                    function_name=self.function_name,", "                    function_name=self.operation_identifier.name,")
M("c14-wfc-result-before-submit", "C14", "R4.wait-for-callback-composition", "operation/callback.py",
  """    context.step(
        func=submitter_step, name=f"{name_with_space}submitter", config=step_config
    )

    return callback.result()""", """    result = callback.result()
    context.step(
        func=submitter_step, name=f"{name_with_space}submitter", config=step_config
    )

    return result""")
M("c14-callback-returns-operation-id", "C14", "R1.create-callback", "operation/callback.py",
  "        return checkpointed_result.operation.callback_details.callback_id", "        return checkpointed_result.operation.operation_id")
M("c14-result-absent-suspends", "C14", "R2.callback-result", "context.py",
  """        if not checkpointed_result.is_existent():
            msg = "Callback operation must exist"
            raise CallbackError(message=msg, callback_id=self.callback_id)
""", "")

# ----------------------------------------------------------------------------- C16
M("c16-generator-on-branches", "C16", "R4.generator-attached-to-batch-context", "concurrency/executor.py",
  """                    sub_type=self.sub_type_iteration,
                ),""", """                    sub_type=self.sub_type_iteration,
                    summary_generator=self.summary_generator,
                ),""", desc="the repaired defect, re-introduced")
M("c16-large-records-full-payload", "C16", "R1.summary-not-payload", "operation/child.py",
  """                serialized_result = (
                    self.config.summary_generator(raw_result)
                    if self.config.summary_generator
                    else ""
                )""", """                pass""")
M("c16-large-no-replay-flag", "C16", "R1.summary-not-payload", "operation/child.py",
  "                replay_children = True\n", "                replay_children = False\n")
M("c16-limit-changed", "C16", "R1.limit-is-256KiB", "operation/child.py",
  "CHECKPOINT_SIZE_LIMIT = 256 * 1024", "CHECKPOINT_SIZE_LIMIT = 256 * 1024 * 1024")
M("c16-replay-children-checkpoints", "C16", "R2.replay-children-cell", "operation/child.py",
  "            if checkpointed_result.is_replay_children():\n                logger.debug(", "            if False:\n                logger.debug(")
M("c16-handler-never-replays", "C16", "R3.handler-dispatch", "operation/map.py",
  "    if checkpoint.is_succeeded():\n        # if we've reached", "    if checkpoint.is_failed():\n        # if we've reached")
M("c16-replay-failed-as-started", "C16", "R3.replay-mapping", "concurrency/executor.py",
  "            elif checkpoint.is_failed():\n                error = checkpoint.error\n                status = BatchItemStatus.FAILED",
  "            elif checkpoint.is_failed():\n                error = checkpoint.error\n                status = BatchItemStatus.STARTED")
M("c16-wrapper-large-result-in-response", "C16", "R5.wrapper-oversize", "execution.py",
  """                    return DurableExecutionInvocationOutput.create_succeeded(
                        result=""
                    ).to_dict()""", """                    return DurableExecutionInvocationOutput.create_succeeded(
                        result=serialized_result
                    ).to_dict()""")
M("c16-wrapper-limit", "C16", "R5.response-limit", "execution.py",
  "LAMBDA_RESPONSE_SIZE_LIMIT = 6 * 1024 * 1024 - 50", "LAMBDA_RESPONSE_SIZE_LIMIT = 60 * 1024 * 1024 - 50")
M("c16-summary-of-wrong-value", "C16", "R1.summary-not-payload", "operation/child.py",
  "                    self.config.summary_generator(raw_result)", "                    self.config.summary_generator(serialized_result)")
M("c16-benign-ge-plus-one", "C16", "", "operation/child.py",
  "            if payload_size > CHECKPOINT_SIZE_LIMIT:", "            if not payload_size <= CHECKPOINT_SIZE_LIMIT:", expect="silent")

# ----------------------------------------------------------------------------- C05
M("c05-oversize-parked-forever", "C05", "R3.", "state.py",
  """                if (
                    batch
                    and total_size + op_size
                    > self._batcher_config.max_batch_size_bytes
                ):""", """                if total_size + op_size > self._batcher_config.max_batch_size_bytes:""", desc="the repaired defect, re-introduced")
M("c05-token-not-updated", "C05", "R5.token-threading", "state.py",
  "                    current_checkpoint_token = output.checkpoint_token\n", "")
M("c05-drop-size-guard", "C05", "R4.limit-guards", "state.py",
  """                if total_size + op_size > self._batcher_config.max_batch_size_bytes:
                    # Put in overflow queue for next batch""", """                if False:
                    # Put in overflow queue for next batch""")
M("c05-append-and-park", "C05", "R2.linearity", "state.py",
  """                    self._overflow_queue.put(additional_op)
                    logger.debug(
                        "Batch size limit reached, moving operation to overflow queue"
                    )
                    break""", """                    self._overflow_queue.put(additional_op)
                    batch.append(additional_op)
                    break""")
M("c05-park-on-main-queue", "C05", "R", "state.py",
  "                    self._overflow_queue.put(additional_op)\n                    logger.debug(",
  "                    self._checkpoint_queue.put(additional_op)\n                    logger.debug(")
M("c05-skip-release-on-success", "C05", "R6.release", "state.py",
  """                    for queued_op in batch:
                        if queued_op.completion_event is not None:
                            queued_op.completion_event.set()
                except Exception as e:""", """                    for queued_op in batch[1:]:
                        if queued_op.completion_event is not None:
                            queued_op.completion_event.set()
                except Exception as e:""")
M("c05-count-limit-dropped", "C05", "R4.limit-guards", "state.py",
  """            time.time() < batch_deadline
            and len(batch) < self._batcher_config.max_batch_operations
            and not self._checkpointing_stopped.is_set()""", """            time.time() < batch_deadline
            and not self._checkpointing_stopped.is_set()""")
M("c05-batch-reversed", "C05", "R", "state.py",
  "        return batch\n\n    @staticmethod", "        return batch[::-1]\n\n    @staticmethod")
M("c05-size-of-wrong-item", "C05", "R4.limit-guards", "state.py",
  "                op_size = self._calculate_operation_size(additional_op)", "                op_size = self._calculate_operation_size(batch[0])")
M("c05-second-producer", "C05", "R1.queue-ownership", "state.py",
  "        logger.debug(\"Signaling background thread to stop checkpointing\")\n",
  "        logger.debug(\"Signaling background thread to stop checkpointing\")\n        self._checkpoint_queue.put(QueuedOperation(None))\n")
M("c05-updates-filtered", "C05", "R5.updates-are-the-batch", "state.py",
  "                    q.operation_update for q in batch if q.operation_update is not None",
  "                    q.operation_update for q in batch[:1] if q.operation_update is not None")
M("c05-drain-main-first", "C05", "R", "state.py",
  "                overflow_op = self._overflow_queue.get_nowait()", "                overflow_op = self._checkpoint_queue.get_nowait()")
M("c05-benign-ge", "C05", "", "state.py",
  """                if total_size + op_size > self._batcher_config.max_batch_size_bytes:
                    # Put in overflow queue for next batch""", """                if not (total_size + op_size <= self._batcher_config.max_batch_size_bytes):
                    # Put in overflow queue for next batch""", expect="silent")

# ----------------------------------------------------------------------------- C06
def _flag_after_drain(src):
    a = "                    self._checkpointing_failed.set(bg_error)\n\n"
    b = "                    # Exit the loop - error has been signaled"
    if src.count(a) != 1 or src.count(b) != 1:
        return None
    return src.replace(a, "").replace(b, "                    self._checkpointing_failed.set(bg_error)\n\n" + b)


M2("c06-flag-after-drain", "C06", "R2.handshake-consumer-flag-before-drain", [{"file": "state.py", "fn": _flag_after_drain}],
   desc="repaired defect re-introduced (flag raised after the drain)")
M("c06-no-recheck-after-put", "C06", "R2.handshake-producer-recheck-after-put", "state.py",
  """            if self._checkpointing_failed.is_set():
                self._checkpointing_failed.wait()

            # Wait for completion""", """            # Wait for completion""")
M("c06-done-callback-drops-bte", "C06", "R4.done-callback-routes-every-outcome", "concurrency/executor.py",
  """        except BaseException as e:  # noqa: BLE001
            # e.g. BackgroundThreadError: not an outcome of the branch. This callback runs in
            # a pool thread, so wake the thread blocked in execute(), which re-raises it.
            self._fatal_exception = e
            self._completion_event.set()
            return
""", "")
M("c06-timer-unprotected", "C06", "R4.timer-thread-routes-checkpoint-failure", "concurrency/executor.py",
  """            try:
                execution_state.create_checkpoint()
            except BaseException as e:  # noqa: BLE001
                # e.g. BackgroundThreadError: this runs in the timer thread, so hand the
                # error to the thread blocked in execute() instead of dying silently
                self._fatal_exception = e
                self._completion_event.set()
                return
""", "            execution_state.create_checkpoint()\n")
M("c06-fatal-not-reraised", "C06", "R4.fatal-error-reraised-by-waiter", "concurrency/executor.py",
  """                if self._fatal_exception:
                    raise self._fatal_exception
""", "")
M("c06-main-queue-not-drained", "C06", "R1.handler-drains-and-wakes", "state.py",
  """                    while not self._checkpoint_queue.empty():
                        try:
                            item = self._checkpoint_queue.get_nowait()
                            if item.completion_event:
                                item.completion_event.set(bg_error)
                        except queue.Empty:
                            break
""", "")
M("c06-drained-set-without-error", "C06", "R1.handler-drains-and-wakes", "state.py",
  """                            item = self._overflow_queue.get_nowait()
                            if item.completion_event:
                                item.completion_event.set(bg_error)""", """                            item = self._overflow_queue.get_nowait()
                            if item.completion_event:
                                item.completion_event.set()""")
M("c06-consumer-continues", "C06", "R1.consumer-stops", "state.py",
  "                    # Exit the loop - error has been signaled to main thread via completion events\n                    break\n",
  "                    # Exit the loop - error has been signaled to main thread via completion events\n                    continue\n")
M("c06-suspend-is-exception", "C06", "R3.base-exception-only", "exceptions.py",
  "class SuspendExecution(BaseException):", "class SuspendExecution(Exception):")
M("c06-wrapper-pending-on-bte", "C06", "R5.wrapper-outcome", "execution.py",
  "                    return handle_checkpoint_error(bg_error.source_exception).to_dict()\n                raise bg_error.source_exception from bg_error\n",
  "                    return handle_checkpoint_error(bg_error.source_exception).to_dict()\n                return DurableExecutionInvocationOutput(\n                    status=InvocationStatus.PENDING\n                ).to_dict()\n")
M("c06-child-swallows-base", "C06", "R", "operation/child.py",
  "        except SuspendExecution:\n            # Don't checkpoint SuspendExecution - let it bubble up\n            raise\n",
  "        except SuspendExecution:\n            # Don't checkpoint SuspendExecution - let it bubble up\n            raise\n        except BackgroundThreadError:\n            return None  # type: ignore\n")
M("c06-wfc-catches-base", "C06", "R6.failure-ends-operation", "operation/wait_for_condition.py",
  "        except Exception as e:\n            # Mark as failed", "        except BaseException as e:\n            # Mark as failed")

# ----------------------------------------------------------------------------- C10
M("c10-guard-after-put", "C10", "R1.guard", "state.py",
  """                if (
                    operation_update.operation_id in self._parent_done
                    or self._has_completed_ancestor(operation_update.parent_id)
                ):""", """                if False:""")
M("c10-guard-ignores-parent-link", "C10", "R3.guard-reads-parent-link", "state.py",
  """                    operation_update.operation_id in self._parent_done
                    or self._has_completed_ancestor(operation_update.parent_id)
                ):""", """                    operation_update.operation_id in self._parent_done
                ):""", desc="repaired defect re-introduced")
M("c10-ancestor-walk-ignores-history", "C10", "R4.tree-knows-history", "state.py",
  """            if parent is None:
                with self._operations_lock:
                    recorded = self.operations.get(current)
                parent = recorded.parent_id if recorded else None
""", "", desc="half of the repaired defect re-introduced")
M("c10-mark-only-on-succeed", "C10", "R2.mark-on-succeed-and-fail", "state.py",
  "                    in {OperationAction.SUCCEED, OperationAction.FAIL}", "                    in {OperationAction.SUCCEED}")
M("c10-mark-outside-lock", "C10", "R1.", "state.py",
  """                    self._mark_orphans(operation_update.operation_id)
                    self._completed_contexts.add(operation_update.operation_id)
""", """                    pass
            if (
                operation_update.operation_type == OperationType.CONTEXT
                and operation_update.action in {OperationAction.SUCCEED, OperationAction.FAIL}
            ):
                self._mark_orphans(operation_update.operation_id)
            with self._parent_done_lock:
                if (
                    operation_update.operation_type == OperationType.CONTEXT
                    and operation_update.action in {OperationAction.SUCCEED, OperationAction.FAIL}
                ):
                    self._completed_contexts.add(operation_update.operation_id)
""")
M("c10-marking-not-transitive", "C10", "R2.marking-is-transitive", "state.py",
  "            to_process.update(direct_children)\n", "            all_descendants.update(direct_children)\n")
M("c10-mark-wrong-root", "C10", "R2.mark-on-succeed-and-fail", "state.py",
  "                    self._mark_orphans(operation_update.operation_id)", "                    self._mark_orphans(operation_update.parent_id)")
M("c10-child-start-after-body-skipped", "C10", "R6.first-time-operation-checks-first", "operation/wait_for_condition.py",
  "        if not checkpointed_result.is_started():\n            start_operation", "        if checkpointed_result.is_pending():\n            start_operation")

# ----------------------------------------------------------------------------- C09
M("c09-empty-input-hangs", "C09", "R4.empty-input-terminates", "concurrency/executor.py",
  """        if not self.executables:
            # Nothing to run: no task would ever set the completion event (and a
            # ThreadPoolExecutor cannot be created with zero workers).
            self.executables_with_state = []
            return self._create_result()

""", "", desc="repaired defect re-introduced")
M("c09-suspended-dropped-from-started", "C09", "R1.faithful-item-per-branch", "concurrency/executor.py",
  """                    | BranchStatus.RUNNING
                    | BranchStatus.SUSPENDED
                    | BranchStatus.SUSPENDED_WITH_TIMEOUT""", """                    | BranchStatus.RUNNING
                    | BranchStatus.SUSPENDED_WITH_TIMEOUT""")
M("c09-index-off-by-one", "C09", "R1.faithful-item-per-branch", "concurrency/executor.py",
  """                        BatchItem(
                            executable.index,
                            BatchItemStatus.SUCCEEDED,""", """                        BatchItem(
                            executable.index + 1,
                            BatchItemStatus.SUCCEEDED,""")
M("c09-failed-reported-succeeded", "C09", "R1.faithful-item-per-branch", "concurrency/executor.py",
  """                            executable.index,
                            BatchItemStatus.FAILED,
                            # a branch fails""", """                            executable.index,
                            BatchItemStatus.SUCCEEDED,
                            # a branch fails""")
M("c09-second-unbounded-pool", "C09", "R2.", "concurrency/executor.py",
  "        thread_executor = ThreadPoolExecutor(max_workers=max_workers)", "        thread_executor = ThreadPoolExecutor(max_workers=len(self.executables))")
M("c09-tolerance-ge-one-side", "C09", "R3.same-threshold-atoms", "concurrency/models.py",
  """                and self.failure_count > self.tolerated_failure_count
            ):
                return False""", """                and self.failure_count >= self.tolerated_failure_count
            ):
                return False""")
M("c09-classifier-ignores-config", "C09", "R1.faithful-item-per-branch", "concurrency/executor.py",
  "        return BatchResult.from_items(batch_items, self.completion_config)\n\n    def _execute_item", "        return BatchResult.from_items(batch_items)\n\n    def _execute_item")
M("c09-order-reversed", "C09", "R1.input-order", "concurrency/executor.py",
  "            ExecutableWithState(executable=exe) for exe in self.executables\n", "            ExecutableWithState(executable=exe) for exe in reversed(self.executables)\n")

# ----------------------------------------------------------------------------- C07
M("c07-running-does-not-veto-suspend", "C07", "R2.suspend-decision", "concurrency/executor.py",
  "            if exe_state.status in {BranchStatus.PENDING, BranchStatus.RUNNING}:", "            if exe_state.status in {BranchStatus.PENDING}:")
M("c07-step-catches-suspension", "C07", "R", "operation/step.py",
  "        except Exception as e:\n            if isinstance(e, ExecutionError):", "        except (Exception, SuspendExecution) as e:\n            if isinstance(e, ExecutionError):")
M("c07-new-unbounded-wait", "C07", "R4.blocking-call-registered", "concurrency/executor.py",
  "        self._shutdown.set()\n        self._timer_thread.join(timeout=1.0)", "        self._shutdown.set()\n        self._timer_thread.join()")
M("c07-wait-start-async", "C07", "R1.record-before-suspend", "operation/wait.py",
  "            self.state.create_checkpoint(operation_update=operation, is_sync=True)",
  "            self.state.create_checkpoint(operation_update=operation, is_sync=False)")
M2("c07-resubmit-before-reset", "C07", "R5.reset-before-resubmit", [
    {"file": "concurrency/executor.py", "old": "                            exe_state.reset_to_pending()\n                            to_resubmit = exe_state",
     "new": "                            to_resubmit = exe_state"},
    {"file": "concurrency/executor.py", "old": "                    self.resubmit_callback(to_resubmit)\n",
     "new": "                    self.resubmit_callback(to_resubmit)\n                    to_resubmit.reset_to_pending()\n"}])
M("c07-wrapper-suspend-returns-succeeded", "C07", "R3.wrapper-maps-suspension-to-pending", "execution.py",
  """                return DurableExecutionInvocationOutput(
                    status=InvocationStatus.PENDING
                ).to_dict()

            except CheckpointError as e:""", """                return DurableExecutionInvocationOutput(
                    status=InvocationStatus.SUCCEEDED
                ).to_dict()

            except CheckpointError as e:""")
M("c07-indefinite-suspension-ignored", "C07", "R2.suspend-decision", "concurrency/executor.py",
  "        if indefinite_suspend_task:\n            return SuspendResult.suspend(", "        if False:\n            return SuspendResult.suspend(")
M("c07-invoke-suspends-without-start", "C07", "R1.record-before-suspend", "operation/invoke.py",
  "            self.state.create_checkpoint(operation_update=start_operation, is_sync=True)",
  "            self.state.create_checkpoint(operation_update=start_operation, is_sync=False)")

# ----------------------------------------------------------------------------- C08
M("c08-id-from-time", "C08", "R1.", "context.py",
  '        step_id = f"{self._parent_id}-{step}" if self._parent_id else str(step)',
  '        step_id = f"{self._parent_id}-{step}-{id(self)}" if self._parent_id else str(step)')
M("c08-parent-not-hashed", "C08", "R1.both-inputs-hashed", "context.py",
  '        step_id = f"{self._parent_id}-{step}" if self._parent_id else str(step)',
  '        step_id = f"{step}" if self._parent_id else str(step)')
M("c08-no-separator", "C08", "R1.both-inputs-hashed", "context.py",
  '        step_id = f"{self._parent_id}-{step}" if self._parent_id else str(step)',
  '        step_id = f"{self._parent_id}{step}" if self._parent_id else str(step)')
M("c08-child-shares-counter", "C08", "R", "context.py",
  """        return DurableContext(
            state=self.state,
            execution_context=self.execution_context,
            lambda_context=self.lambda_context,
            parent_id=parent_id,
            logger=self.logger.with_log_info(""", """        child = DurableContext(
            state=self.state,
            execution_context=self.execution_context,
            lambda_context=self.lambda_context,
            parent_id=parent_id,
        )
        child._step_counter = self._step_counter
        return DurableContext(
            state=self.state,
            execution_context=self.execution_context,
            lambda_context=self.lambda_context,
            parent_id=parent_id,
            logger=self.logger.with_log_info(""")
M("c08-branches-use-counter", "C08", "R4.", "concurrency/executor.py",
  """        operation_id = executor_context._create_step_id_for_logical_step(  # noqa: SLF001
            executable.index
        )
        name = f\"{self.name_prefix}{executable.index}\"""", """        operation_id = executor_context._create_step_id()  # noqa: SLF001
        name = f\"{self.name_prefix}{executable.index}\"""")
M("c08-id-after-executor", "C08", "R3.one-id-per-call", "context.py",
  """        seconds = duration.to_seconds()
        if seconds < 1:
            msg = "duration must be at least 1 second"
            raise ValidationError(msg)
        operation_id = self._create_step_id()""", """        operation_id = self._create_step_id()
        seconds = duration.to_seconds()
        if seconds < 1:
            msg = "duration must be at least 1 second"
            raise ValidationError(msg)""")
M("c08-wrong-parent-link", "C08", "R3.one-id-per-call", "context.py",
  """        operation_id = self._create_step_id()
        parallel_context = self.create_child_context(parent_id=operation_id)
        operation_identifier = OperationIdentifier(
            operation_id=operation_id, parent_id=self._parent_id, name=name
        )""", """        operation_id = self._create_step_id()
        parallel_context = self.create_child_context(parent_id=operation_id)
        operation_identifier = OperationIdentifier(
            operation_id=operation_id, parent_id=operation_id, name=name
        )""")
M("c08-map-context-wrong-parent", "C08", "R3.one-id-per-call", "context.py",
  "        map_context = self.create_child_context(parent_id=operation_id)", "        map_context = self.create_child_context(parent_id=self._parent_id)")
M("c08-factory-drops-parent", "C08", "R5.factory-copies-identity", "lambda_service.py",
  """        \"\"\"Create an instance of OperationUpdate for type: WAIT, action: START.\"\"\"
        return cls(
            operation_id=identifier.operation_id,
            parent_id=identifier.parent_id,""", """        \"\"\"Create an instance of OperationUpdate for type: WAIT, action: START.\"\"\"
        return cls(
            operation_id=identifier.operation_id,""")
M("c08-replay-uses-different-id", "C08", "R4.branch-id-from-index", "concurrency/executor.py",
  """        for executable in self.executables:
            operation_id = executor_context._create_step_id_for_logical_step(  # noqa: SLF001
                executable.index
            )""", """        for executable in self.executables:
            operation_id = executor_context._create_step_id_for_logical_step(  # noqa: SLF001
                executable.index + 1
            )""")
M("c08-run-in-child-context-wrong-parent", "C08", "R3.one-id-per-call", "context.py",
  "            return func(self.create_child_context(parent_id=operation_id))", "            return func(self.create_child_context(parent_id=step_name))")
M("c08-benign-named-var", "C08", "", "context.py",
  "            return func(self.create_child_context(parent_id=operation_id))",
  "            child = self.create_child_context(parent_id=operation_id)\n            return func(child)", expect="silent")

# ----------------------------------------------------------------------------- C18
def _swap_handlers(src):
    a = """            except CheckpointError as e:
                # Checkpoint system is broken - stop background thread and exit immediately
                logger.exception(
                    "Checkpoint system failed",
                    extra=e.build_logger_extras(),
                )
                return handle_checkpoint_error(e).to_dict()
"""
    b = """            except InvocationError:
                logger.exception("Invocation error. Must terminate.")
                if (answer := answer_for_failed_checkpointing()) is not None:
                    return answer
                # Throw the error to trigger Lambda retry
                raise
"""
    if src.count(a) != 1 or src.count(b) != 1:
        return None
    return src.replace(a, "@@A@@").replace(b, a).replace("@@A@@", b)


M2("c18-handlers-swapped", "C18", "R1.", [{"file": "execution.py", "fn": _swap_handlers}])
M("c18-dumps-outside-try", "C18", "R1.", "execution.py",
  """            try:
                # Background checkpointing errors will propagate through CompletionEvent.wait() as BackgroundThreadError
                result = user_future.result()
""", """            result = user_future.result()
            try:
                # Background checkpointing errors will propagate through CompletionEvent.wait() as BackgroundThreadError
""")
M("c18-generic-returns-pending", "C18", "R1.outcome-classification", "execution.py",
  """                result = DurableExecutionInvocationOutput(
                    status=InvocationStatus.FAILED, error=ErrorObject.from_exception(e)
                ).to_dict()""", """                result = DurableExecutionInvocationOutput(
                    status=InvocationStatus.PENDING, error=ErrorObject.from_exception(e)
                ).to_dict()""")
M("c18-with-items-swapped", "C18", "R4.stop-before-join", "execution.py",
  """            ThreadPoolExecutor(
                max_workers=2, thread_name_prefix="dex-handler"
            ) as executor,
            contextlib.closing(execution_state) as execution_state,""", """            contextlib.closing(execution_state) as execution_state,
            ThreadPoolExecutor(
                max_workers=2, thread_name_prefix="dex-handler"
            ) as executor,""")
M("c18-close-does-not-stop", "C18", "R4.stop-before-join", "state.py",
  "    def close(self):\n        self.stop_checkpointing()", "    def close(self):\n        pass")
M("c18-execution-error-reraised", "C18", "R1.outcome-classification", "execution.py",
  """                if (answer := answer_for_failed_checkpointing()) is not None:
                    return answer
                return DurableExecutionInvocationOutput(
                    status=InvocationStatus.FAILED,
                    error=ErrorObject.from_exception(e),
                ).to_dict()""", """                if (answer := answer_for_failed_checkpointing()) is not None:
                    return answer
                raise""")
M("c18-retriable-inverted", "C18", "R1.outcome-classification", "execution.py",
  "    if error.is_retriable():\n        raise error from None", "    if not error.is_retriable():\n        raise error from None")
M("c18-succeeded-with-error-key", "C18", "R2.well-formed-return", "execution.py",
  """        if self.error:
            result["Error"] = self.error.to_dict()
""", """        result["Error"] = self.error.to_dict() if self.error else None
""")
M("c18-payload-error-unwrapped", "C18", "R5.malformed-payload-raises-execution-error", "execution.py",
  "            except (KeyError, TypeError, AttributeError) as e:", "            except (TypeError, AttributeError) as e:")
M("c18-collector-ignores-stop", "C18", "R4.consumer-loops-observe-stop", "state.py",
  "            while not self._checkpointing_stopped.is_set():\n                try:\n                    first_op",
  "            while True:\n                try:\n                    first_op")
M("c18-failed-with-result", "C18", "R2.well-formed-return", "execution.py",
  """                return DurableExecutionInvocationOutput(
                    status=InvocationStatus.FAILED,
                    error=ErrorObject.from_exception(e),
                ).to_dict()""", """                return DurableExecutionInvocationOutput(
                    status=InvocationStatus.FAILED,
                    result="",
                    error=ErrorObject.from_exception(e),
                ).to_dict()""")

# ----------------------------------------------------------------------------- C17
M("c17-step-track-only-on-success", "C17", "R2.visited-on-every-exit", "context.py",
  """        try:
            result: T = executor.process()
        finally:
            self.state.track_replay(operation_id=operation_id)
        return result

    def wait(""", """        result: T = executor.process()
        self.state.track_replay(operation_id=operation_id)
        return result

    def wait(""", desc="repaired defect re-introduced at one site")
M("c17-first-page-only", "C17", "R3.replay-decision-sees-whole-history", "execution.py",
  "            or invocation_input.initial_execution_state.next_marker\n", "", desc="repaired defect re-introduced")
M("c17-log-bypasses-gate", "C17", "R1.gate-dominates-emission", "logger.py",
  "        self._log(self._logger.error, msg, *args, extra=extra)", "        self._logger.error(msg, *args, extra=extra)")
M("c17-gate-inverted", "C17", "R1.", "logger.py",
  "        return not self._execution_state.is_replaying()", "        return self._execution_state.is_replaying()")
M("c17-extra-not-merged", "C17", "R1.gate-dominates-emission", "logger.py",
  "        merged_extra = {**self._default_extra, **(extra or {})}", "        merged_extra = {**(extra or {})}")
M("c17-derived-logger-loses-arn", "C17", "R1.derived-logger-identifiers", "logger.py",
  """        extra: MutableMapping[str, object] = {
            "executionArn": info.execution_state.durable_execution_arn
        }""", """        extra: MutableMapping[str, object] = {}""")
M("c17-track-wrong-id", "C17", "R2.visited-on-every-exit", "context.py",
  """        try:
            executor.process()
        finally:
            self.state.track_replay(operation_id=operation_id)""", """        try:
            executor.process()
        finally:
            self.state.track_replay(operation_id=name)""")
M("c17-operation-id-key-wrong", "C17", "R1.derived-logger-identifiers", "logger.py",
  '            extra["operationId"] = info.operation_id', '            extra["operationId"] = info.parent_id')
M("c17-benign-finally-helper", "C17", "", "context.py",
  """        try:
            executor.process()
        finally:
            self.state.track_replay(operation_id=operation_id)""", """        try:
            executor.process()
        except BaseException:
            self.state.track_replay(operation_id=operation_id)
            raise
        else:
            self.state.track_replay(operation_id=operation_id)""", expect="silent")

# ----------------------------------------------------------------------------- C19
M("c19-pop-instead-of-popleft", "C19", "R4.release-wakes-head", "threading.py",
  "            self._waiters.popleft()", "            self._waiters.pop()")
M("c19-wake-tail", "C19", "R4.release-wakes-head", "threading.py",
  "                self._waiters[0].set()", "                self._waiters[-1].set()")
M2("c19-append-after-wait", "C19", "R2.enqueue-before-wait", [
    {"file": "threading.py", "old": """                event = Event()
                self._waiters.append(event)

                if len(self._waiters) == 1:
                    # first waiter, nothing else in queue so no need to wait
                    event.set()
""", "new": """                event = Event()

                if len(self._waiters) == 0:
                    # first waiter, nothing else in queue so no need to wait
                    event.set()
"""},
    {"file": "threading.py", "old": """        # block until it's our turn to proceed
        event.wait()
""", "new": """        # block until it's our turn to proceed
        event.wait()
        with self._lock:
            self._waiters.append(event)
"""}])
M("c19-no-wake-all-on-exception", "C19", "R4.exceptional-exit-breaks-and-wakes-all", "threading.py",
  "                for waiter in self._waiters:\n                    waiter.set()\n", "")
M("c19-counter-returns-outside-lock", "C19", "R5.counter-read-modify-return-under-lock", "threading.py",
  "        with self._lock:\n            self._counter += 1\n            return self._counter",
  "        with self._lock:\n            self._counter += 1\n        return self._counter")
M("c19-self-wake-always", "C19", "R2.enqueue-before-wait", "threading.py",
  "            if len(self._waiters) == 1:", "            if len(self._waiters) >= 1:")
M("c19-append-outside-lock", "C19", "R1.lock-discipline", "threading.py",
  """    def reset(self) -> None:""", """    def enqueue_unlocked(self, event) -> None:
        self._waiters.append(event)

    def reset(self) -> None:""", expect="silent", desc="a new unused helper is not judged (no caller) - stays silent")
M("c19-broken-not-retested", "C19", "R2.enqueue-before-wait", "threading.py",
  """        # this is the only thread progressing and holding the lock, so doesn't need to be under lock
        if self._is_broken:
            msg = "Cannot acquire lock in guaranteed order because a previous lock exited with an exception."
            raise OrderedLockError(msg, self._exception)

        return True""", """        return True""")
M("c19-break-flag-after-wake", "C19", "R4.exceptional-exit-breaks-and-wakes-all", "threading.py",
  """                self._is_broken = True
                self._exception = exc_val
                # break the queue and let all waiters know
                for waiter in self._waiters:
                    waiter.set()
""", """                # break the queue and let all waiters know
                for waiter in self._waiters:
                    waiter.set()
                self._is_broken = True
                self._exception = exc_val
""")
M("c19-release-ignores-broken", "C19", "R4.release-wakes-head", "threading.py",
  "            if self._waiters and not self._is_broken:", "            if self._waiters:")
M("c19-benign-len-zero-before", "C19", "", "threading.py",
  """                event = Event()
                self._waiters.append(event)

                if len(self._waiters) == 1:""", """                event = Event()
                self._waiters.append(event)
                n_waiting = len(self._waiters)

                if n_waiting == 1:""", expect="silent")

# ----------------------------------------------------------------------------- C20
M("c20-context-details-partial", "C20", "R1.field-is-written", "lambda_service.py",
  """            if self.context_details.replay_children:
                context_dict["ReplayChildren"] = self.context_details.replay_children
""", "", desc="part of the repaired defect re-introduced")
M("c20-truthiness-presence", "C20", "R3.empty-dict-is-not-absence", "lambda_service.py",
  '        if (wait_details_input := data.get("WaitDetails")) is not None:', '        if wait_details_input := data.get("WaitDetails"):')
M("c20-key-renamed-one-side", "C20", "R2.same-key", "lambda_service.py",
  '            "NextAttemptDelaySeconds": self.next_attempt_delay_seconds,', '            "NextAttemptDelay": self.next_attempt_delay_seconds,')
M("c20-update-drops-wait-options", "C20", "R1.field-is-written", "lambda_service.py",
  """        if self.wait_options:
            result["WaitOptions"] = self.wait_options.to_dict()
""", "")
M("c20-json-reader-forgets-path", "C20", "R4.json-reader-converts-all-timestamps", "lambda_service.py",
  """        if (ms := data_copy.get("EndTimestamp")) is not None:
            data_copy["EndTimestamp"] = TimestampConverter.from_unix_millis(ms)

""", "")
M("c20-nested-key-mismatch", "C20", "R2.same-key", "lambda_service.py",
  '            step_dict: MutableMapping[str, Any] = {"Attempt": self.step_details.attempt}', '            step_dict: MutableMapping[str, Any] = {"Attempts": self.step_details.attempt}')
M("c20-enum-read-raw", "C20", "R2.enum-conversion", "lambda_service.py",
  '            action=OperationAction(data["Action"]),', '            action=data["Action"],')
M("c20-reader-wrong-nested-class", "C20", "R2.nested-model-conversion", "lambda_service.py",
  "            callback_options = CallbackOptions.from_dict(callback_data)", "            callback_options = WaitOptions.from_dict(callback_data)")
M("c20-batch-item-key", "C20", "R2.same-key", "concurrency/models.py",
  '            index=data["index"],', '            index=data["idx"],')
M("c20-output-error-dropped", "C20", "R1.field-is-written", "execution.py",
  """        if self.error:
            result["Error"] = self.error.to_dict()
""", "")
M("c20-initial-state-json-no-delegate", "C20", "R4.json-variant-delegates", "execution.py",
  "            operations = [Operation.from_json_dict(op) for op in input_operations]", "            operations = [Operation.from_dict(op) for op in input_operations]")
M("c20-benign-reorder-keys", "C20", "", "lambda_service.py",
  """        return {
            "TimeoutSeconds": self.timeout_seconds,
            "HeartbeatTimeoutSeconds": self.heartbeat_timeout_seconds,
        }""", """        return {
            "HeartbeatTimeoutSeconds": self.heartbeat_timeout_seconds,
            "TimeoutSeconds": self.timeout_seconds,
        }""", expect="silent")

# ----------------------------------------------------------------------------- C15
M("c15-int-before-bool", "C15", "R", "serdes.py",
  """            case bool():  # Must come before int
                return EncodedValue(TypeTag.BOOL, obj)
            case int():
                return EncodedValue(TypeTag.INT, obj)""", """            case int():
                return EncodedValue(TypeTag.INT, obj)
            case bool():  # Must come before int
                return EncodedValue(TypeTag.BOOL, obj)""")
M("c15-date-before-datetime", "C15", "R", "serdes.py",
  """            case datetime():
                return EncodedValue(TypeTag.DATETIME, obj.isoformat())
            case date():
                return EncodedValue(TypeTag.DATE, obj.isoformat())""", """            case date():
                return EncodedValue(TypeTag.DATE, obj.isoformat())
            case datetime():
                return EncodedValue(TypeTag.DATETIME, obj.isoformat())""")
M("c15-date-decoded-as-datetime", "C15", "R2.decode-rebuilds-the-encoded-type", "serdes.py",
  "                return date.fromisoformat(value)", "                return datetime.fromisoformat(value)")
M("c15-tuple-routed-to-list", "C15", "R2.decode-rebuilds-the-encoded-type", "serdes.py",
  "                return tuple([self._unwrap(v, self.dispatcher) for v in value])", "                return [self._unwrap(v, self.dispatcher) for v in value]")
M("c15-dict-fast-path", "C15", "R5.fast-path-domain", "serdes.py",
  """        if isinstance(obj, list):
            return all(SerDes.is_primitive(item) for item in obj)
        return False""", """        if isinstance(obj, list):
            return all(SerDes.is_primitive(item) for item in obj)
        if isinstance(obj, dict):
            return all(SerDes.is_primitive(item) for item in obj.values())
        return False""")
M("c15-key-guard-removed", "C15", "R6.non-string-keys-rejected", "serdes.py",
  """                    if not isinstance(k, str):
                        # JSON object keys are strings and the decoder cannot restore the key type:
                        # {1: ...} would silently come back as {"1": ...}
                        msg = f"Only string keys are supported in dicts, got {type(k)!r}"
                        raise SerDesError(msg)
""", "", desc="repaired defect re-introduced")
M("c15-list-elements-not-wrapped", "C15", "R4.elements-individually-wrapped", "serdes.py",
  "                    TypeTag.LIST, [self._wrap(v, self.dispatcher) for v in obj]", "                    TypeTag.LIST, [v for v in obj]")
M("c15-unknown-tag-passthrough", "C15", "R1.unknown-tag-rejected", "serdes.py",
  """            case _:
                msg = f"Unknown type tag: {tag}"
                raise SerDesError(msg)""", """            case _:
                return value""")
M("c15-decimal-decoded-as-float", "C15", "R2.decode-rebuilds-the-encoded-type", "serdes.py",
  "        return Decimal(value)", "        return float(value)")
M("c15-error-not-wrapped", "C15", "R7.failure-becomes-execution-error", "serdes.py",
  """        logger.exception("⚠️ Deserialization failed for id: %s", operation_id)
        msg = f"Deserialization failed for id: {operation_id}"
        raise ExecutionError(msg) from e""", """        logger.exception("⚠️ Deserialization failed for id: %s", operation_id)
        raise""")
M("c15-tuple-in-fast-path", "C15", "R5.fast-path-domain", "serdes.py",
  "        if isinstance(obj, list):\n            return all(", "        if isinstance(obj, list | tuple):\n            return all(")
M("c15-uuid-tagged-str", "C15", "R", "serdes.py",
  "        return EncodedValue(TypeTag.UUID, str(obj))", "        return EncodedValue(TypeTag.STR, str(obj))")

# ----------------------------------------------------------------------------- benign refactors: every check must stay silent
import re as _re


def _rename(old, new):
    return lambda src: (_re.sub(rf"\b{old}\b", new, src) if _re.search(rf"\b{old}\b", src) else None)


M2("benign-rename-local-step", "ALL", "", [{"file": "operation/step.py", "fn": _rename("checkpointed_result", "cp")}], expect="silent")
M2("benign-rename-local-child", "ALL", "", [{"file": "operation/child.py", "fn": _rename("serialized_result", "payload_text")}], expect="silent")
M2("benign-rename-local-state", "ALL", "", [{"file": "state.py", "fn": _rename("queued_op", "entry")}], expect="silent")
M2("benign-rename-local-wrapper", "ALL", "", [{"file": "execution.py", "fn": _rename("serialized_result", "body")}], expect="silent")
M("benign-extract-size-helper", "ALL", "", "operation/child.py",
  "            if payload_size > CHECKPOINT_SIZE_LIMIT:\n                logger.debug(",
  "            too_large = payload_size > CHECKPOINT_SIZE_LIMIT\n            if too_large:\n                logger.debug(", expect="silent")
M("benign-early-return-inverted", "ALL", "", "operation/wait.py",
  """        if checkpointed_result.is_succeeded():
            logger.debug(
                "Wait already completed, skipping wait for id: %s, name: %s",
                self.operation_identifier.operation_id,
                self.operation_identifier.name,
            )
            return CheckResult.create_completed(None)
""", """        already_done = checkpointed_result.is_succeeded()
        if already_done:
            return CheckResult.create_completed(None)
""", expect="silent")
M("benign-extra-logging", "ALL", "", "state.py",
  "        # Enqueue the wrapper object (operation_update can be None for empty checkpoints)\n",
  "        logger.debug(\"about to enqueue %s\", queued_op)\n        # Enqueue the wrapper object (operation_update can be None for empty checkpoints)\n", expect="silent")
M("benign-new-helper-method", "ALL", "", "state.py",
  "    def stop_checkpointing(self) -> None:", "    def pending_count(self) -> int:\n        return self._checkpoint_queue.qsize()\n\n    def stop_checkpointing(self) -> None:", expect="silent")
M("benign-invoke-reorder-checks", "ALL", "", "operation/invoke.py",
  """        # Still running - ready to suspend
        if checkpointed_result.is_started():
            logger.debug(
                "⏳ Invoke %s still in progress, will suspend",
                self.operation_identifier.name or self.function_name,
            )
            return CheckResult.create_is_ready_to_execute(checkpointed_result)
""", """        # Still running - ready to suspend
        still_running = checkpointed_result.is_started()
        if still_running:
            return CheckResult.create_is_ready_to_execute(checkpointed_result)
""", expect="silent")


def _track_helper(src):
    a = """        try:
            result: R = executor.process()
        finally:
            self.state.track_replay(operation_id=operation_id)
        return result"""
    if src.count(a) != 1:
        return None
    src = src.replace(a, """        try:
            result: R = executor.process()
        finally:
            self._visited(operation_id)
        return result""")
    return src.replace("    def _create_step_id(self) -> str:", "    def _visited(self, operation_id: str) -> None:\n        self.state.track_replay(operation_id=operation_id)\n\n    def _create_step_id(self) -> str:", 1)


M2("benign-track-helper", "ALL", "", [{"file": "context.py", "fn": _track_helper}], expect="silent")

M("benign-pagination-while-true", "ALL", "", "state.py",
  """        while next_marker:
            output: StateOutput = self._service_client.get_execution_state(
                durable_execution_arn=self.durable_execution_arn,
                checkpoint_token=checkpoint_token,
                next_marker=next_marker,
            )
            all_operations.extend(output.operations)
            next_marker = output.next_marker
""", """        while True:
            if not next_marker:
                break
            output: StateOutput = self._service_client.get_execution_state(
                durable_execution_arn=self.durable_execution_arn,
                checkpoint_token=checkpoint_token,
                next_marker=next_marker,
            )
            all_operations.extend(output.operations)
            next_marker = output.next_marker
""", expect="silent")
M("benign-replay-status-local", "ALL", "", "execution.py",
  """        execution_state: ExecutionState = ExecutionState(
            durable_execution_arn=invocation_input.durable_execution_arn,
            initial_checkpoint_token=invocation_input.checkpoint_token,
            operations={},
            service_client=service_client,
            # If there are operations other than the initial EXECUTION one, current state is in replay mode.
            # The history may be paginated: a next marker means more operations follow on later pages.
            replay_status=ReplayStatus.REPLAY
            if len(invocation_input.initial_execution_state.operations) > 1
            or invocation_input.initial_execution_state.next_marker
            else ReplayStatus.NEW,
        )""", """        has_history = (
            len(invocation_input.initial_execution_state.operations) > 1
            or bool(invocation_input.initial_execution_state.next_marker)
        )
        initial_status = ReplayStatus.REPLAY if has_history else ReplayStatus.NEW
        execution_state: ExecutionState = ExecutionState(
            durable_execution_arn=invocation_input.durable_execution_arn,
            initial_checkpoint_token=invocation_input.checkpoint_token,
            operations={},
            service_client=service_client,
            replay_status=initial_status,
        )""", expect="silent")

# ----------------------------------------------------------------------------- round 3 (rules added after independent mutants)
M("c07-tolerated-failure-skips-suspend-check", "C07", "R2.suspension-reevaluated-on-branch-end", "concurrency/executor.py",
  """                exe_state.fail(e)
                self.counters.fail_task()
""", """                exe_state.fail(e)
                self.counters.fail_task()
            if not self.counters.should_complete():
                return
""")
M("c02-replay-without-policy", "C02", "R5.batch-classified-with-callers-policy", "concurrency/executor.py",
  "        return BatchResult.from_items(items, self.completion_config)", "        return BatchResult.from_items(items)")
M("c09-replay-skips-unstarted", "C09", "R1.replay-item-per-input", "concurrency/executor.py",
  """            checkpoint = execution_state.get_checkpoint_result(operation_id)
""", """            checkpoint = execution_state.get_checkpoint_result(operation_id)
            if not checkpoint.is_existent():
                continue
""")
M("c01-branch-context-reused", "C01", "R5.body-rerun-draws-same-ids", "concurrency/executor.py",
  "        child_context = executor_context.create_child_context(operation_id)\n",
  """        child_context = getattr(self, "_ctx_cache", {}).get(executable.index)
        if child_context is None:
            child_context = executor_context.create_child_context(operation_id)
            self.__dict__.setdefault("_ctx_cache", {})[executable.index] = child_context
""")
M("c08-branch-context-reused", "C08", "R3.fresh-context-per-body-run", "concurrency/executor.py",
  "        child_context = executor_context.create_child_context(operation_id)\n",
  """        child_context = getattr(self, "_ctx_cache", {}).get(executable.index)
        if child_context is None:
            child_context = executor_context.create_child_context(operation_id)
            self.__dict__.setdefault("_ctx_cache", {})[executable.index] = child_context
""")
M("c10-walk-history-lookup-loop-invariant", "C10", "R3.ancestor-walk-reaches-every-level", "state.py",
  "                    recorded = self.operations.get(current)", "                    recorded = self.operations.get(parent_id)")
M("c10-negative-verdict-memo", "C10", "R7.no-stale-negative-verdict", "state.py",
  """        seen: set[str] = set()
        current = parent_id
        while current and current not in seen:""",
  """        if parent_id in self._parent_to_children.get("<live>", set()):
            return False
        self._parent_to_children.setdefault("<live>", set()).add(parent_id)
        seen: set[str] = set()
        current = parent_id
        while current and current not in seen:""")
M("c13-execution-error-not-recorded", "C13", "R5.failed-poll-is-recorded", "operation/wait_for_condition.py",
  """        except Exception as e:
            # Mark as failed""", """        except Exception as e:
            if isinstance(e, ExecutionError):
                raise
            # Mark as failed""")
M("c15-batch-item-truthiness", "C15", "R9.batch-item-read-as-is", "concurrency/models.py",
  '            result=data.get("result"),', '            result=data.get("result") or None,')
M2("c16-char-count-vs-byte-limit", "C16", "R5.size-measured-in-bytes", [
    {"file": "execution.py", "old": "                serialized_result = json.dumps(result)\n                # large response",
     "new": "                serialized_result = json.dumps(result, ensure_ascii=False)\n                # large response"},
    {"file": "execution.py", "old": """                        ).to_dict()
                    )
                )
                if serialized_result and response_size""", "new": """                        ).to_dict(),
                        ensure_ascii=False,
                    )
                )
                if serialized_result and response_size"""}])
M("benign-result-not-ascii-escaped", "ALL", "", "execution.py",
  "                serialized_result = json.dumps(result)\n                # large response", "                serialized_result = json.dumps(result, ensure_ascii=False)\n                # large response", expect="silent",
  desc="the result keeps its non-ASCII characters; the response is still measured through an escaping json.dumps (an over-estimate of its UTF-8 size)")
M("c17-ready-counts-as-completed", "C17", "R4.terminal-set", "state.py",
  """                    and op.status
                    in {
                        OperationStatus.SUCCEEDED,
                        OperationStatus.FAILED,
                        OperationStatus.CANCELLED,
                        OperationStatus.STOPPED,
                        OperationStatus.TIMED_OUT,
                    }""", """                    and op.status not in {OperationStatus.STARTED, OperationStatus.PENDING}""")
M("c18-join-before-stop", "C18", "R4.stop-not-behind-a-wait", "state.py",
  "    def close(self):\n        self.stop_checkpointing()", "    def close(self):\n        self._checkpoint_queue.join()\n        self.stop_checkpointing()")
M("c07-unregistered-queue-join", "C07", "R4.blocking-call-registered", "state.py",
  "    def close(self):\n        self.stop_checkpointing()", "    def close(self):\n        self._checkpoint_queue.join()\n        self.stop_checkpointing()")
M("c19-reset-while-queued", "C19", "R4.unbreak-only-with-empty-queue", "threading.py",
  "            if self._waiters:\n                msg = (\n                    \"Cannot reset lock", "            if self._waiters and not self._is_broken:\n                msg = (\n                    \"Cannot reset lock")
M2("c20-timetuple-ignores-offset", "C20", "R4.timestamp-conversion-preserves-instant", [
    {"file": "lambda_service.py", "old": "import datetime\n", "new": "import calendar\nimport datetime\n"},
    {"file": "lambda_service.py", "old": "        return (dt - _UNIX_EPOCH) // datetime.timedelta(milliseconds=1)",
     "new": "        return calendar.timegm(dt.timetuple()) * 1000 + dt.microsecond // 1000"}])
M("c08-id-hasher-published-early", "C08", "R1.id-function-pure", "context.py",
  """        step_id = f"{self._parent_id}-{step}" if self._parent_id else str(step)
        return hashlib.blake2b(step_id.encode()).hexdigest()[:64]""",
  """        if getattr(self, "_id_hasher", None) is None:
            self._id_hasher = hashlib.blake2b()
            if self._parent_id:
                self._id_hasher.update(f"{self._parent_id}-".encode())
        hasher = self._id_hasher.copy()
        hasher.update(str(step).encode())
        return hasher.hexdigest()[:64]""")
# benign counterparts: behaviour-preserving, every check must stay silent
M2("benign-id-prefix-hasher-built-in-init", "ALL", "", [
    {"file": "context.py", "old": "        self._step_counter: OrderedCounter = OrderedCounter()\n",
     "new": "        self._step_counter: OrderedCounter = OrderedCounter()\n        self._id_prefix = hashlib.blake2b()\n        if parent_id:\n            self._id_prefix.update(f\"{parent_id}-\".encode())\n"},
    {"file": "context.py", "old": """        step_id = f"{self._parent_id}-{step}" if self._parent_id else str(step)
        return hashlib.blake2b(step_id.encode()).hexdigest()[:64]""",
     "new": """        hasher = self._id_prefix.copy()
        hasher.update(str(step).encode())
        return hasher.hexdigest()[:64]"""}], expect="silent")
M2("benign-response-measured-encoded", "ALL", "", [
    {"file": "execution.py", "old": "                serialized_result = json.dumps(result)\n                # large response",
     "new": "                serialized_result = json.dumps(result, ensure_ascii=False)\n                # large response"},
    {"file": "execution.py", "old": """                        ).to_dict()
                    )
                )
                if serialized_result and response_size""", "new": """                        ).to_dict(),
                        ensure_ascii=False,
                    ).encode("utf-8")
                )
                if serialized_result and response_size"""}], expect="silent")
M("benign-policy-alias-in-replay", "ALL", "", "concurrency/executor.py",
  "        return BatchResult.from_items(items, self.completion_config)", "        policy = self.completion_config\n        return BatchResult.from_items(items, policy)", expect="silent")
M("benign-terminal-set-as-complement", "ALL", "", "state.py",
  """                    and op.status
                    in {
                        OperationStatus.SUCCEEDED,
                        OperationStatus.FAILED,
                        OperationStatus.CANCELLED,
                        OperationStatus.STOPPED,
                        OperationStatus.TIMED_OUT,
                    }""", """                    and op.status not in {OperationStatus.STARTED, OperationStatus.PENDING, OperationStatus.READY}""", expect="silent")
M2("benign-to-millis-via-utctimetuple", "ALL", "", [
    {"file": "lambda_service.py", "old": "import datetime\n", "new": "import calendar\nimport datetime\n"},
    {"file": "lambda_service.py", "old": "        return (dt - _UNIX_EPOCH) // datetime.timedelta(milliseconds=1)",
     "new": "        return calendar.timegm(dt.utctimetuple()) * 1000 + dt.microsecond // 1000"}], expect="silent")

# ----------------------------------------------------------------------------- round 4
M("c02-error-codec-drops-falsy", "C02", "R4.error-codec-keeps-set-fields", "lambda_service.py",
  """        if self.message is not None:
            result["ErrorMessage"] = self.message""", """        if self.message:
            result["ErrorMessage"] = self.message""")
M("c09-zero-percentage-is-unset", "C09", "R3.threshold-zero-is-not-unset", "concurrency/models.py",
  "            if self.tolerated_failure_percentage is not None and self.total_tasks > 0:", "            if self.tolerated_failure_percentage and self.total_tasks > 0:")
M("c14-heartbeat-capped-by-timeout", "C14", "R1.create-callback", "operation/callback.py",
  "                heartbeat_timeout_seconds=self.config.heartbeat_timeout_seconds,",
  "                heartbeat_timeout_seconds=min(self.config.heartbeat_timeout_seconds, self.config.timeout_seconds),")
M("c03-sync-producer-returns-on-foreign-flag", "C03", "R2.put-then-wait-same-event", "state.py",
  """            if self._checkpointing_failed.is_set():
                self._checkpointing_failed.wait()

            # Wait for completion - will raise BackgroundThreadError if background thread fails
            completion_event.wait()""",
  """            while not (completion_event.is_set() or self._checkpointing_failed.is_set()):
                completion_event.wait(timeout=0.1)
            completion_event.wait(timeout=0)""")
M("c19-release-fast-path-outside-mutex", "C19", "R1.lock-discipline", "threading.py",
  '''        """Release lock. This makes the lock available for the next queued up waiter."""
        with self._lock:''', '''        """Release lock. This makes the lock available for the next queued up waiter."""
        if len(self._waiters) == 1:
            self._waiters.popleft()
            return
        with self._lock:''')
M("c20-step-options-zero-omitted", "C20", "R3.empty-dict-is-not-absence", "lambda_service.py",
  """    def to_dict(self) -> MutableMapping[str, Any]:
        return {
            "NextAttemptDelaySeconds": self.next_attempt_delay_seconds,
        }""", """    def to_dict(self) -> MutableMapping[str, Any]:
        if not self.next_attempt_delay_seconds:
            return {}
        return {
            "NextAttemptDelaySeconds": self.next_attempt_delay_seconds,
        }""")
M("benign-sync-producer-polls-own-event", "ALL", "", "state.py",
  """            # Wait for completion - will raise BackgroundThreadError if background thread fails
            completion_event.wait()""",
  """            # Wait for completion - will raise BackgroundThreadError if background thread fails
            while not completion_event.is_set():
                if self._checkpointing_failed.is_set():
                    self._checkpointing_failed.wait()
                completion_event.wait(timeout=0.5)
            completion_event.wait()""", expect="silent")
M("benign-error-codec-dict-comprehension", "ALL", "", "lambda_service.py",
  """        result: MutableMapping[str, Any] = {}
        if self.message is not None:
            result["ErrorMessage"] = self.message
        if self.type is not None:
            result["ErrorType"] = self.type
        if self.data is not None:
            result["ErrorData"] = self.data
        if self.stack_trace is not None:
            result["StackTrace"] = self.stack_trace
        return result""",
  """        fields: MutableMapping[str, Any] = {
            "ErrorMessage": self.message,
            "ErrorType": self.type,
            "ErrorData": self.data,
            "StackTrace": self.stack_trace,
        }
        return {key: value for key, value in fields.items() if value is not None}""", expect="silent")

# further behaviour-preserving refactors (added with rounds 3/4): every check must stay silent
M2("benign-done-callback-tail-helper", "ALL", "", [
    {"file": "concurrency/executor.py", "old": """        # Check if execution should complete or suspend
        with self._decision_lock:
            if self.counters.should_complete():
                self._completion_event.set()
            else:
                suspend_result = self.should_execution_suspend()
                if suspend_result.should_suspend:
                    self._suspend_exception = suspend_result.exception
                    self._completion_event.set()
""", "new": """        # Check if execution should complete or suspend
        with self._decision_lock:
            if self.counters.should_complete():
                self._completion_event.set()
                return
            suspend_result = self.should_execution_suspend()
            if suspend_result.should_suspend:
                self._suspend_exception = suspend_result.exception
                self._completion_event.set()
"""}], expect="silent", desc="the decision written with an early return instead of else (it was a helper method before the decision lock of 6b4dbfe)")
M("benign-ancestor-walk-renamed-locals", "ALL", "", "state.py",
  """        seen: set[str] = set()
        current = parent_id
        while current and current not in seen:
            if current in self._completed_contexts or current in self._parent_done:
                return True
            seen.add(current)
            parent = self._parent_of.get(current)
            if parent is None:
                with self._operations_lock:
                    recorded = self.operations.get(current)
                parent = recorded.parent_id if recorded else None
            current = parent
        return False""",
  """        visited: set[str] = set()
        node = parent_id
        while node and node not in visited:
            if node in self._parent_done or node in self._completed_contexts:
                return True
            visited.add(node)
            up = self._parent_of.get(node)
            if up is None:
                with self._operations_lock:
                    rec = self.operations.get(node)
                up = rec.parent_id if rec is not None else None
            node = up
        return False""", expect="silent")
M("benign-wfc-fail-record-via-local", "ALL", "", "operation/wait_for_condition.py",
  "            self.state.create_checkpoint(operation_update=fail_operation)\n",
  "            record = fail_operation\n            self.state.create_checkpoint(operation_update=record, is_sync=True)\n", expect="silent")
M("benign-batch-item-from-dict-locals", "ALL", "", "concurrency/models.py",
  """            result=data.get("result"),
            error=ErrorObject.from_dict(data["error"]) if data.get("error") else None,""",
  """            result=data.get("result", None),
            error=(ErrorObject.from_dict(data["error"]) if data.get("error") else None),""", expect="silent")
M("benign-reset-len-check", "ALL", "", "threading.py",
  "            if self._waiters:\n                msg = (\n                    \"Cannot reset lock", "            if len(self._waiters) > 0:\n                msg = (\n                    \"Cannot reset lock", expect="silent")
M("benign-close-logs-before-stop", "ALL", "", "state.py",
  "    def close(self):\n        self.stop_checkpointing()", "    def close(self):\n        logger.debug(\"closing execution state\")\n        self.stop_checkpointing()", expect="silent")

# ----------------------------------------------------------------------------- round 5
M("c09-replay-locals-carry-over", "C09", "R1.replay-item-carries-own-outcome", "concurrency/executor.py",
  """        items: list[BatchItem[ResultType]] = []
        for executable in self.executables:
            operation_id = executor_context._create_step_id_for_logical_step(  # noqa: SLF001
                executable.index
            )
            checkpoint = execution_state.get_checkpoint_result(operation_id)

            result: ResultType | None = None
            error = None
            status: BatchItemStatus
""", """        items: list[BatchItem[ResultType]] = []
        result: ResultType | None = None
        error = None
        for executable in self.executables:
            operation_id = executor_context._create_step_id_for_logical_step(  # noqa: SLF001
                executable.index
            )
            checkpoint = execution_state.get_checkpoint_result(operation_id)

            status: BatchItemStatus
""")
M("c05-size-estimate-from-parts", "C05", "R4.size-is-serialized-wire-form", "state.py",
  """        serialized = json.dumps(queued_op.operation_update.to_dict()).encode("utf-8")
        return len(serialized)""",
  """        wire = queued_op.operation_update.to_dict()
        payload = wire.pop("Payload", None) or ""
        return len(json.dumps(wire).encode("utf-8")) + len(payload.encode("utf-8")) + 15""")
M("c02-summarised-context-returns-record", "C02", "R2.summarised-context-is-rebuilt", "operation/child.py",
  "            and not checkpointed_result.is_replay_children()", "            and (not checkpointed_result.is_replay_children() or not checkpointed_result.result)")
M2("c06-page-fetch-outside-handler", "C06", "R1.handler-covers-every-service-call", [
    {"file": "state.py", "old": """                    # Update local token for next iteration
                    current_checkpoint_token = output.checkpoint_token

                    # Fetch new operations from the API before unblocking sync waiters
                    self.fetch_paginated_operations(
                        output.new_execution_state.operations,
                        output.checkpoint_token,
                        output.new_execution_state.next_marker,
                    )

                    # Signal completion for any synchronous operations
                    for queued_op in batch:
                        if queued_op.completion_event is not None:
                            queued_op.completion_event.set()
                except Exception as e:""", "new": """                    # Update local token for next iteration
                    current_checkpoint_token = output.checkpoint_token
                except Exception as e:"""},
    {"file": "state.py", "old": """                    # Exit the loop - error has been signaled to main thread via completion events
                    break
""", "new": """                    # Exit the loop - error has been signaled to main thread via completion events
                    break
                self.fetch_paginated_operations(
                    output.new_execution_state.operations,
                    output.checkpoint_token,
                    output.new_execution_state.next_marker,
                )
                for queued_op in batch:
                    if queued_op.completion_event is not None:
                        queued_op.completion_event.set()
"""}])
M("benign-size-via-local-and-ascii-len", "ALL", "", "state.py",
  """        serialized = json.dumps(queued_op.operation_update.to_dict()).encode("utf-8")
        return len(serialized)""",
  """        wire = queued_op.operation_update.to_dict()
        text = json.dumps(wire)
        return len(text)""", expect="silent")
M("c14-callback-result-truthiness", "C14", "R2.callback-result", "context.py",
  "            if checkpointed_result.result is None:\n                return None  # type: ignore", "            if not checkpointed_result.result:\n                return None  # type: ignore")
M("c02-step-result-truthiness", "C02", "R2.none-only-when-no-payload", "operation/step.py",
  "            if checkpointed_result.result is None:\n                return CheckResult.create_completed(None)  # type: ignore",
  "            if not checkpointed_result.result:\n                return CheckResult.create_completed(None)  # type: ignore")
M("c17-set-logger-loses-parent", "C17", "R1.context-logger-carries-enclosing-id", "context.py",
  "            info=self._log_info,", "            info=LogInfo(execution_state=self.state),")
M("c12-filters-compiled-unescaped", "C12", "R4.string-filters-match-literally", "retries.py",
  """            pattern.search(error_message)
            if isinstance(pattern, re.Pattern)
            else pattern in error_message""", """            (pattern if isinstance(pattern, re.Pattern) else re.compile(pattern)).search(error_message)""")
M("c20-shallow-copy-then-nested-store", "C20", "R5.reader-does-not-mutate-its-input", "lambda_service.py",
  "        data_copy = copy.deepcopy(data)", "        data_copy = copy.copy(data)")
M("c17-completed-context-keeps-logger-muted", "C17", "R6.boundary-on-small-histories", "state.py",
  "                self._visited_operations.update(self._recorded_descendants(operation_id))\n", "")
M("benign-filters-escaped-regex", "ALL", "", "retries.py",
  """            pattern.search(error_message)
            if isinstance(pattern, re.Pattern)
            else pattern in error_message""", """            (pattern if isinstance(pattern, re.Pattern) else re.compile(re.escape(pattern))).search(error_message)""", expect="silent")
M("benign-from-json-dict-rebuilds-nested", "ALL", "", "lambda_service.py",
  "        data_copy = copy.deepcopy(data)", "        data_copy = {k: (dict(v) if isinstance(v, dict) else v) for k, v in data.items()}", expect="silent")

# ----------------------------------------------------------------------------- review-agent round h1: each repaired defect, reverted
M("c05-stop-leaves-waiters", "C05", "R6.stop-refuses-later-producers", "state.py",
  "            self._checkpointing_failed.set(stopped_error)\n            for pending in (self._overflow_queue, self._checkpoint_queue):",
  "            for pending in ():")
M("c06-success-without-failure-look", "C06", "R5.verdict-consults-failure-state", "execution.py",
  "                raise_if_checkpointing_failed()\n                return DurableExecutionInvocationOutput.create_succeeded(\n                    result=serialized_result\n                ).to_dict()",
  "                return DurableExecutionInvocationOutput.create_succeeded(\n                    result=serialized_result\n                ).to_dict()")
M("c06-look-without-join", "C06", "R5.verdict-consults-failure-state", "execution.py",
  "                execution_state.stop_checkpointing()\n                checkpoint_future.result()\n                execution_state.raise_if_checkpointing_failed()",
  "                execution_state.raise_if_checkpointing_failed()")
M("c10-resumed-op-not-asked", "C10", "R6.asks-again-after-a-blocking-checkpoint", "operation/base.py",
  "                state is not None\n                and self.runs_user_code\n", "                False\n                and self.runs_user_code\n",
  desc="the query right before the user code removed. Labelled benign after 0ae22a8 (every operation asks on entry) until r8_C10 showed what it is still for: an at-most-once step blocks on its START between the entry query and its function")
M2("c10-neither-query-before-resumed-user-code", "C10", "R6.resumed-operation-checks-first", [
    {"file": "operation/base.py", "old": "                state is not None\n                and self.runs_user_code\n", "new": "                False\n                and self.runs_user_code\n"},
    {"file": "operation/base.py", "old": "        if state is not None:\n            state.raise_if_in_orphaned_branch(self.operation_identifier.parent_id)\n", "new": ""}])
M("c16-orphan-query-on-retraversal", "C16", "R2.replay-children-cell", "operation/base.py",
  "                and self.runs_user_code\n                and not result.checkpointed_result.is_succeeded()\n", "                and self.runs_user_code\n")
M("c10-put-after-the-lock", "C10", "R1.under-lock", "state.py",
  "                completion_event = self._enqueue_checkpoint(operation_update, is_sync)\n        else:\n            completion_event = self._enqueue_checkpoint(operation_update, is_sync)\n",
  "        completion_event = self._enqueue_checkpoint(operation_update, is_sync)\n")
M("c07-callback-under-timer-lock", "C07", "R4.no-callback-under-lock", "concurrency/executor.py",
  "                            to_resubmit = exe_state\n", "                            to_resubmit = exe_state\n                            self.resubmit_callback(to_resubmit)\n                            to_resubmit = None\n")
M("c07-invoke-parks-until-now", "C07", "R1.timed-suspension-lies-in-the-future", "operation/invoke.py",
  "self.config.timeout_seconds or None)", "self.config.timeout_seconds)")
M("c01-replay-tracking-iterates-unlocked", "C01", "R3.operations-iterated-under-lock", "state.py",
  "                with self._operations_lock:\n                    recorded_operations = list(self.operations.items())\n", "                recorded_operations = self.operations.items()\n")
M("c09-failed-item-wrapper-type", "C09", "R1.failed-item-carries-recorded-error", "concurrency/executor.py",
  "                            if isinstance(branch_error, CallableRuntimeError)\n", "                            if False\n")
M("c12-power-overflows", "C12", "R4.backoff-power-cannot-overflow", "retries.py",
  """        except OverflowError:
            # a float rate overflows long before the cap applies (2.0 ** 1024): the product is beyond
            # the cap then - unless the initial delay is zero (the product stays zero) or the
            # product is negative (a negative rate with an odd exponent)
            base_delay = (
                config.max_delay_seconds
                if config.initial_delay_seconds > 0
                and (config.backoff_rate > 0 or (attempts_made - 1) % 2 == 0)
                else 0
            )
""", "        finally:\n            pass\n")
M("c13-recorded-state-truthiness", "C13", "R1.state-threading", "operation/wait_for_condition.py",
  "            and checkpointed_result.result is not None\n", "            and checkpointed_result.result\n")
M("c16-measures-result-text-only", "C16", "R5.size-measures-the-response", "execution.py",
  "                if serialized_result and response_size > LAMBDA_RESPONSE_SIZE_LIMIT:", "                if serialized_result and len(serialized_result) > LAMBDA_RESPONSE_SIZE_LIMIT:")
M("c20-float-millis", "C20", "R4.millis-computed-exactly", "lambda_service.py",
  "        return (dt - _UNIX_EPOCH) // datetime.timedelta(milliseconds=1)", "        return int(dt.timestamp() * 1000)")
M("c20-zero-millis-undecoded", "C20", "R4.json-reader-tests-presence", "lambda_service.py",
  '        if (ms := data_copy.get("StartTimestamp")) is not None:', '        if ms := data_copy.get("StartTimestamp"):')

# ----------------------------------------------------------------------------- review-agent round h2
M("c10-step-does-not-ask-orphan-state", "C10", "R6.asks-again-after-a-blocking-checkpoint", "operation/step.py",
  "\n    runs_user_code = True\n", "\n", desc="labelled benign after 0ae22a8 until r8_C10 (see c10-resumed-op-not-asked)")
M("c16-callback-asks-orphan-state", "C16", "R2.no-orphan-query-without-user-code", "operation/callback.py",
  "    CRITICAL: Errors are deferred to Callback.result() for deterministic replay.",
  "    CRITICAL: Errors are deferred to Callback.result() for deterministic replay.\n    \"\"\"\n\n    runs_user_code = True\n\n    \"\"\"",
  desc="fix 6f.. reverted for callbacks: an open callback inside a re-traversed summarised context is rejected as orphaned work")
M2("c16-every-resumed-operation-asks", "C16", "R2.no-orphan-query-without-user-code", [
    {"file": "operation/base.py", "old": "                and self.runs_user_code\n", "new": ""}],
   desc="the narrowing of the read-only orphan query reverted")
M("c09-status-published-before-result", "C09", "R1.payload-published-before-status", "concurrency/models.py",
  "        self._result = result\n        self._is_result_set = True\n        self._status = BranchStatus.COMPLETED\n",
  "        self._status = BranchStatus.COMPLETED\n        self._result = result\n        self._is_result_set = True\n", desc="fix d1f73a6 reverted (complete)")
M("c09-status-published-before-error", "C09", "R1.payload-published-before-status", "concurrency/models.py",
  "        self._error = error\n        self._status = BranchStatus.FAILED\n", "        self._status = BranchStatus.FAILED\n        self._error = error\n", desc="fix d1f73a6 reverted (fail)")
M("c09-benign-result-flag-order", "C09", "", "concurrency/models.py",
  "        self._result = result\n        self._is_result_set = True\n        self._status = BranchStatus.COMPLETED\n",
  "        self._is_result_set = True\n        self._result = result\n        self._status = BranchStatus.COMPLETED\n", expect="silent")
M("c10-interrupted-step-consults-strategy-first", "C10", "", "operation/step.py",
  """            self.state.raise_if_orphaned(
                self.operation_identifier.operation_id,
                self.operation_identifier.parent_id,
            )
            msg: str =""", "            msg: str =", expect="silent", desc="fix 0861339 reverted: redundant since the entry query of 0ae22a8")
M("c02-handler-input-from-first-page-only", "C02", "R6.handler-input-from-the-whole-history", "execution.py",
  "            raw_input_payload = execution_state.get_execution_input_payload()\n", "            raw_input_payload = None\n", desc="fix reverted: the event comes from the first page only")
M("c02-benign-input-read-from-operations-map", "C02", "", "execution.py",
  "            raw_input_payload = execution_state.get_execution_input_payload()\n",
  "            raw_input_payload = next((o.execution_details.input_payload for o in list(execution_state.operations.values()) if o.execution_details), None)\n", expect="silent")
M("c06-user-error-arm-does-not-ask", "C06", "R5.error-answer-consults-failure-state", "execution.py",
  "                if (answer := answer_for_failed_checkpointing()) is not None:\n                    return answer\n                return result\n",
  "                return result\n", desc="fix 3544342 reverted for the `except Exception` arm")
M("c06-execution-error-arm-does-not-ask", "C06", "R5.error-answer-consults-failure-state", "execution.py",
  "                logger.exception(\"Execution error. Must terminate without retry.\")\n                if (answer := answer_for_failed_checkpointing()) is not None:\n                    return answer\n",
  "                logger.exception(\"Execution error. Must terminate without retry.\")\n", desc="fix 3544342 reverted for the `except ExecutionError` arm")
M("c06-invocation-error-arm-does-not-ask", "C06", "R5.error-answer-consults-failure-state", "execution.py",
  "                logger.exception(\"Invocation error. Must terminate.\")\n                if (answer := answer_for_failed_checkpointing()) is not None:\n                    return answer\n",
  "                logger.exception(\"Invocation error. Must terminate.\")\n", desc="fix 3544342 reverted for the `except InvocationError` arm")
M("c20-decoder-divides-as-float", "C20", "R4.millis-computed-exactly", "lambda_service.py",
  "        return _UNIX_EPOCH + datetime.timedelta(milliseconds=ms)", "        return datetime.datetime.fromtimestamp(ms / 1000, tz=datetime.UTC)", desc="fix 7f3222b reverted")
M("c20-benign-decoder-divmod", "C20", "", "lambda_service.py",
  "        return _UNIX_EPOCH + datetime.timedelta(milliseconds=ms)",
  "        seconds, millis = divmod(ms, 1000)\n        return _UNIX_EPOCH + datetime.timedelta(seconds=seconds, milliseconds=millis)", expect="silent")
M("c15-tuple-decoded-through-generator", "C15", "R12.decoder-reaches-every-depth-the-encoder-accepts", "serdes.py",
  "                return tuple([self._unwrap(v, self.dispatcher) for v in value])", "                return tuple(self._unwrap(v, self.dispatcher) for v in value)", desc="fix a811a5d reverted")
M("c16-child-limit-counts-characters", "C16", "R1.limit-compared-with-bytes", "operation/child.py",
  "            payload_size: int = len(serialized_result.encode(\"utf-8\", \"surrogatepass\"))", "            payload_size: int = len(serialized_result)", desc="fix 5bb33be reverted")
M("c12-overflow-fallback-ignores-zero-initial", "C12", "R4.overflow-fallback-follows-the-product", "retries.py",
  """            base_delay = (
                config.max_delay_seconds
                if config.initial_delay_seconds > 0
                and (config.backoff_rate > 0 or (attempts_made - 1) % 2 == 0)
                else 0
            )""", "            base_delay = config.max_delay_seconds", desc="the repair of h2_C12 reverted")
M("c18-response-none-dereferenced", "C18", "R3.foreign-attribute-none-safe", "exceptions.py",
  "        response = getattr(exception, \"response\", None) or {}", "        response = getattr(exception, \"response\", {})", desc="repair of h2_C18 #1 reverted")
M("c18-user-str-unguarded", "C18", "R1.user-exception-text-is-guarded", "lambda_service.py",
  """        try:
            message = str(exception)
        except Exception:  # noqa: BLE001
            # a user exception class with a broken __str__ (e.g. returning None) must still be
            # recordable; same wording as the traceback module
            message = "<exception str() failed>"
""", "        message = str(exception)\n", desc="repair of h2_C18 #3 reverted")

# ----------------------------------------------------------------------------- round 6 (after the h2 repairs)
M2("c12-benign-exponent-in-a-local", "C12", "", [
    {"file": "retries.py", "old": """            base_delay: float = min(
                config.initial_delay_seconds
                * (config.backoff_rate ** (attempts_made - 1)),
                config.max_delay_seconds,
            )""", "new": """            exponent = attempts_made - 1
            growth = config.backoff_rate**exponent
            base_delay: float = min(
                config.initial_delay_seconds * growth,
                config.max_delay_seconds,
            )"""}], expect="silent")
M2("c12-exponent-clamped", "C12", "R4.packaged-strategy-shape", [
    {"file": "retries.py", "old": "                * (config.backoff_rate ** (attempts_made - 1)),", "new": "                * (config.backoff_rate ** min(attempts_made - 1, 32)),"}])
M("c09-counted-before-published", "C09", "R1.branch-outcome-bookkeeping", "concurrency/executor.py",
  "            with self._decision_lock:\n                exe_state.complete(result)\n                self.counters.complete_task()\n",
  "            self.counters.complete_task()\n            exe_state.complete(result)\n", desc="r6_C09 on the tree before 6b4dbfe: counted before published, no common critical section")
M("c09-benign-counted-before-published-inside-the-lock", "C09", "", "concurrency/executor.py",
  "            with self._decision_lock:\n                exe_state.complete(result)\n                self.counters.complete_task()\n",
  "            with self._decision_lock:\n                self.counters.complete_task()\n                exe_state.complete(result)\n", expect="silent",
  desc="r6_C09 on the tree after 6b4dbfe: no decider can observe the order of the two writes")
M("c18-strategy-str-unguarded", "C18", "R1.user-exception-text-is-guarded", "retries.py",
  """        try:
            error_message = str(error)
        except Exception:  # noqa: BLE001
            # a user exception class with a broken __str__: the step must still get its RETRY or
            # FAIL record (same text as ErrorObject.from_exception records)
            error_message = "<exception str() failed>"
""", "        error_message = str(error)\n", desc="repair 276483a reverted")
M("c07-benign-resubmit-guard-reordered", "C07", "", "concurrency/executor.py",
  "                if to_resubmit is not None and not self._shutdown.is_set():", "                if not self._shutdown.is_set() and to_resubmit is not None:", expect="silent")
M("c06-inner-handler-swallows-page-error", "C06", "R1.handler-covers-every-service-call", "state.py",
  """                    self.fetch_paginated_operations(
                        output.new_execution_state.operations,
                        output.checkpoint_token,
                        output.new_execution_state.next_marker,
                    )
""", """                    try:
                        self.fetch_paginated_operations(
                            output.new_execution_state.operations,
                            output.checkpoint_token,
                            output.new_execution_state.next_marker,
                        )
                    except Exception:  # noqa: BLE001
                        logger.warning("could not read the remaining pages")
""")
M("c06-stop-writes-the-failure-slot", "C06", "R2.failure-slot-written-by-the-consumer-only", "state.py",
  "        self._checkpointing_stopped.set()\n\n    def _collect_checkpoint_batch",
  "        self._checkpointing_stopped.set()\n        self._checkpointing_failed.set(BackgroundThreadError(\"stopped\", CheckpointingStoppedError(\"stopped\")))\n\n    def _collect_checkpoint_batch")
M("c07-branch-rerun-in-place-on-zero-delay", "C07", "R3.suspension-reaches-its-handler", "concurrency/executor.py",
  "        finally:\n            child_context.state.track_replay(operation_id=operation_id)\n        return result",
  "        except TimedSuspendExecution as tse:\n            if tse.scheduled_timestamp > time.time():\n                raise\n            return self._execute_item_in_child_context(executor_context, executable)\n        finally:\n            child_context.state.track_replay(operation_id=operation_id)\n        return result")
M("c19-only-exceptions-break-the-lock", "C19", "R4.exceptional-exit-breaks-and-wakes-all", "threading.py",
  "        if exc_type is not None:", "        if isinstance(exc_val, Exception):")
M2("c20-decode-cache", "C20", "R6.codec-function-depends-on-its-argument-only", [
    {"file": "lambda_service.py", "old": "@dataclass(frozen=True)\nclass Operation:", "new": "_DECODED: dict = {}\n\n\n@dataclass(frozen=True)\nclass Operation:"},
    {"file": "lambda_service.py", "old": "        # Make a copy to avoid modifying the original data\n        data_copy = copy.deepcopy(data)\n",
     "new": "        if (hit := _DECODED.get(data.get(\"Id\"))) is not None:\n            return hit\n        # Make a copy to avoid modifying the original data\n        data_copy = copy.deepcopy(data)\n"}])
M2("c15-encoder-loses-a-frame", "C15", "R12.decoder-reaches-every-depth-the-encoder-accepts", [
    {"file": "serdes.py", "old": "TypeTag.LIST, [self._wrap(v, self.dispatcher) for v in obj]", "new": "TypeTag.LIST, [self.dispatcher.encode(v) for v in obj]"}])
M("c12-interrupted-attempt-reported-as-first", "C12", "R1.attempt-number", "operation/step.py",
  "        retry_decision: RetryDecision = retry_strategy(error, retry_attempt + 1)", "        retry_decision: RetryDecision = retry_strategy(error, 1)")
M("c10-entry-query-removed", "C10", "R8.recorded-outcome-stops-an-orphan-too", "operation/base.py",
  "        if state is not None:\n            state.raise_if_in_orphaned_branch(self.operation_identifier.parent_id)\n", "", desc="fix 0ae22a8 reverted: operations answered from their record do not ask")
M("c16-entry-query-stops-at-completed-context", "C16", "R2.entry-query-lets-a-retraversal-pass", "state.py",
  "            if recorded is None or recorded.status is not OperationStatus.SUCCEEDED:\n                break\n            current = recorded.parent_id\n",
  "            break\n", desc="the entry query judges the direct parent even when that is a context recorded SUCCEEDED: re-traversals are rejected")
M("c10-entry-query-looks-through-open-contexts", "C10", "R9.entry-query-stops-an-orphaned-branch", "state.py",
  "            if recorded is None or recorded.status is not OperationStatus.SUCCEEDED:\n                break\n            current = recorded.parent_id\n",
  "            if recorded is None:\n                break\n            current = recorded.parent_id\n", desc="the walk skips every recorded context: an orphaned branch is never judged")
M("c10-orphan-handler-counts-the-branch", "C10", "R5.orphan-handler-is-inert", "concurrency/executor.py",
  "            self._fatal_exception = e\n            self._completion_event.set()\n            return\n        except TimedSuspendExecution as tse:",
  "            self.counters.fail_task()\n            self._fatal_exception = e\n            self._completion_event.set()\n            return\n        except TimedSuspendExecution as tse:")
M("c03-strategy-called-unprotected", "C03", "R1.record-before-outcome", "operation/step.py",
  """        try:
            retry_decision: RetryDecision = retry_strategy(error, retry_attempt + 1)
            # read the decision here as well: one that cannot be read (None, a delay that is not
            # a Duration) is a failed strategy too
            should_retry: bool = retry_decision.should_retry
            delay_seconds = retry_decision.delay_seconds if should_retry else 0
            too_short: bool = should_retry and delay_seconds < 1
        except Exception:  # noqa: BLE001
            # A strategy that fails cannot decide anything: the step's own failure is recorded and
            # raised as final, instead of leaving the call without any terminal record.
            logger.exception(
                "Retry strategy failed for id: %s, name: %s. Not retrying.",
                self.operation_identifier.operation_id,
                self.operation_identifier.name,
            )
            retry_decision = RetryDecision.no_retry()
            should_retry, delay_seconds, too_short = False, 0, False
""", """        retry_decision: RetryDecision = retry_strategy(error, retry_attempt + 1)
        should_retry: bool = retry_decision.should_retry
        delay_seconds = retry_decision.delay_seconds if should_retry else 0
        too_short: bool = should_retry and delay_seconds < 1
""", desc="fix 089b20e reverted")
M("c15-bytes-decoded-through-b64decode", "C15", "R12.leaf-decoder-no-deeper-than-leaf-encoder", "serdes.py",
  "        return binascii.a2b_base64(value.encode(\"utf-8\"))", "        return base64.b64decode(value.encode(\"utf-8\"))", desc="fix 2d5fcf1 reverted")
M("c09-suspension-raised-without-second-look", "C09", "R5.decided-policy-overrules-a-recorded-suspension", "concurrency/executor.py",
  "                if self._suspend_exception and not decided:", "                if self._suspend_exception:")
M("c19-error-built-under-the-mutex", "C19", "R1.no-user-code-under-the-mutex", "threading.py",
  "            broken_by = self._exception if self._is_broken else None\n", "            broken_by = self._exception if self._is_broken else None\n            if self._is_broken:\n                raise OrderedLockError(\"broken\", self._exception)\n")
M("c07-replayed-wait-counts-from-now", "C07", "R1.replayed-wait-parks-until-its-recorded-end", "operation/wait.py",
  "            suspend_with_optional_resume_timestamp(msg, resume_at)\n", "            pass\n", desc="the repair of h3_C07 #1 reverted")

# ---- rounds g2 / r7 -------------------------------------------------------------------------------------------------
M("c03-mailbox-signal-before-error", "C03", "R2.completion-event-payload-stored-before-the-signal", "threading.py",
  "        if self._error is None:\n            self._error = error\n        self._event.set()\n",
  "        if self._event.is_set():\n            return\n        self._event.set()\n        self._error = error\n", desc="r7_C03 / r7_C06")
M("c06-mailbox-signal-before-error", "C06", "R2.completion-event-payload-stored-before-the-signal", "threading.py",
  "        if self._error is None:\n            self._error = error\n        self._event.set()\n",
  "        self._event.set()\n        if self._error is None:\n            self._error = error\n")
M("c06-mailbox-error-read-before-wait", "C06", "R2.completion-event-slot-read-after-the-wait", "threading.py",
  "        result = self._event.wait(timeout)\n        if self._error is not None:\n            raise self._error\n        return result",
  "        if self._error is not None:\n            raise self._error\n        return self._event.wait(timeout)")
M("c06-benign-mailbox-local-name", "C06", "", "threading.py",
  "        if self._error is None:\n            self._error = error\n        self._event.set()\n",
  "        first = self._error is None\n        if first:\n            self._error = error\n        self._event.set()\n", expect="silent")
M("c07-overdue-timer-parks-untimed", "C07", "R1.own-timer-never-parks-without-a-time", "suspend.py",
  "        raise TimedSuspendExecution.from_datetime(\n            msg, datetime.datetime.now(tz=datetime.UTC)\n        )\n", "        raise SuspendExecution(msg)\n", desc="r7_C07")
M("c09-percentage-of-finished-items", "C09", "R3.same-derived-quantity", "concurrency/models.py",
  "                    failure_percentage = (failure_count / total_count) * 100", "                    failure_percentage = (failure_count / completed_count) * 100", desc="r7_C09")
M("c09-classifier-total-is-finished-count", "C09", "R3.classifier-counters-bound-to-their-statuses", "concurrency/models.py",
  "            total_count=total_count,\n", "            total_count=completed_count,\n")
M("c09-benign-second-look-inline", "C09", "", "concurrency/executor.py",
  "                with self._decision_lock:\n                    decided = self.counters.should_complete()\n                if self._suspend_exception and not decided:\n                    raise self._suspend_exception\n",
  "                with self._decision_lock:\n                    if self._suspend_exception and not self.counters.should_complete():\n                        raise self._suspend_exception\n", expect="silent")
M("c09-outcome-counted-outside-the-lock", "C09", "R5.outcome-published-and-counted-in-one-critical-section", "concurrency/executor.py",
  "            with self._decision_lock:\n                exe_state.complete(result)\n                self.counters.complete_task()\n",
  "            with self._decision_lock:\n                exe_state.complete(result)\n            self.counters.complete_task()\n", desc="fix 6b4dbfe half reverted")
M("c09-decision-outside-the-lock", "C09", "R5.outcome-published-and-counted-in-one-critical-section", "concurrency/executor.py",
  "        with self._decision_lock:\n            if self.counters.should_complete():\n                self._completion_event.set()\n            else:\n                suspend_result = self.should_execution_suspend()\n                if suspend_result.should_suspend:\n                    self._suspend_exception = suspend_result.exception\n                    self._completion_event.set()\n",
  "        if self.counters.should_complete():\n            self._completion_event.set()\n        else:\n            suspend_result = self.should_execution_suspend()\n            if suspend_result.should_suspend:\n                self._suspend_exception = suspend_result.exception\n                self._completion_event.set()\n")
M("c12-invocation-errors-skip-the-strategy", "C12", "R1.every-step-failure-reaches-the-strategy", "operation/step.py",
  "            if isinstance(e, ExecutionError):", "            if isinstance(e, (ExecutionError, StepInterruptedError)):", desc="r7_C12 with another family")
M("c20-replay-children-written-only-with-result", "C20", "R3.emission-guard-looks-at-the-emitted-value-only", "lambda_service.py",
  "            if self.context_details.replay_children:\n", "            if self.context_details.result and self.context_details.replay_children:\n", desc="r7_C20")
M("c20-benign-guard-on-container-and-field", "C20", "", "lambda_service.py",
  "            if self.context_details.replay_children:\n", "            if self.context_details is not None and self.context_details.replay_children:\n", expect="silent")
M("c19-lock-error-formats-unprotected", "C19", "R4.broken-lock-error-built-without-unprotected-user-code", "exceptions.py",
  "            try:\n                text = str(source_exception)\n            except Exception:  # noqa: BLE001\n                # the holder's exception is arbitrary user code; whoever waits for the lock\n                # must get this error, not a failure of that exception's __str__\n                text = \"<exception str() failed>\"\n",
  "            text = str(source_exception)\n", desc="fix b7a8f97 reverted")
M("c07-replayed-wait-parks-full-duration-v2", "C07", "R1.replayed-wait-parks-until-its-recorded-end", "operation/wait.py",
  "            resume_at = min(scheduled_end, now + datetime.timedelta(seconds=self.seconds))\n", "            resume_at = now + datetime.timedelta(seconds=self.seconds)\n", desc="a73cf0b: the recorded end dropped again")


def _replay_tracked_cm(with_finally):
    """r8_C17: the try/finally around child_handler in run_in_child_context / map / parallel becomes `with self._replay_tracked(id):`, a generator
    context manager - without try/finally around its yield (fires) or with it (benign twin)."""
    def edit(src):
        import re as _re
        src = src.replace("import hashlib\n", "import contextlib\nimport hashlib\n", 1)
        body = ("        try:\n            yield\n        finally:\n            self.state.track_replay(operation_id=operation_id)\n" if with_finally
                else "        yield\n        self.state.track_replay(operation_id=operation_id)\n")
        helper = "    @contextlib.contextmanager\n    def _replay_tracked(self, operation_id: str):\n" + body + "\n"
        anchor = "    # region Operations\n"
        assert anchor in src
        src = src.replace(anchor, helper + anchor, 1)
        pat = _re.compile(r"        try:\n((?:            .*\n|\n)*?)        finally:\n            self\.state\.track_replay\(operation_id=operation_id\)\n        return result\n")
        n = 0

        def rep(m):
            nonlocal n
            if "child_handler(" not in m.group(1):
                return m.group(0)
            n += 1
            return "        with self._replay_tracked(operation_id):\n" + m.group(1) + "        return result\n"
        src = pat.sub(rep, src)
        assert n == 3, n
        return src
    return edit


M2("c17-visited-mark-in-a-generator-cm-without-finally", "C17", "R2.visited-on-every-exit", [{"file": "context.py", "fn": _replay_tracked_cm(False)}], desc="r8_C17")
M2("c17-benign-visited-mark-in-a-generator-cm-with-finally", "C17", "", [{"file": "context.py", "fn": _replay_tracked_cm(True)}], expect="silent")
M2("c10-start-sender-skips-the-second-query", "C10", "R6.asks-again-after-a-blocking-checkpoint", [
    {"file": "operation/base.py", "old": "                and self.runs_user_code\n                and not result.checkpointed_result.is_succeeded()\n",
     "new": "                and self.runs_user_code\n                and not getattr(self, \"_sent_start\", False)\n                and not result.checkpointed_result.is_succeeded()\n"},
    {"file": "operation/step.py", "old": "            self.state.create_checkpoint(\n                operation_update=start_operation, is_sync=is_sync\n            )\n",
     "new": "            self.state.create_checkpoint(\n                operation_update=start_operation, is_sync=is_sync\n            )\n            self._sent_start = True\n"}],
   desc="r8_C10: an operation that has just sent its START is not asked again")
M("c11-confirmation-timeout-raised-as-checkpoint-error", "C11", "R1.no-catchable-error-after-the-enqueue", "state.py",
  "            completion_event.wait()\n        else:\n            logger.debug(\"Enqueued checkpoint operation for asynchronous processing\")",
  "            if not completion_event.wait(timeout=60.0):\n                raise DurableExecutionsError(\"checkpoint not confirmed\")\n        else:\n            logger.debug(\"Enqueued checkpoint operation for asynchronous processing\")", desc="r8_C11")
M("c03-mailbox-default-timeout", "C03", "R2.completion-event-wait-is-bounded-only-by-its-caller", "threading.py",
  "        result = self._event.wait(timeout)\n", "        result = self._event.wait(60.0 if timeout is None else timeout)\n", desc="r8_C03")
M("c03-retry-delay-compared-outside-the-guard", "C03", "R1.strategy-decision-is-used-inside-the-guard", "operation/step.py",
  "            if too_short:\n", "            if delay_seconds < 1:\n", desc="fix 948888d reverted")
M("c12-negative-product-not-floored", "C12", "R4.packaged-strategy-shape", "retries.py",
  "        base_delay = max(base_delay, 0)\n", "", desc="fix 948888d (second half) reverted")
_INT_DIGITS_HELPER = ("import sys\nfrom contextlib import contextmanager\n\n\n@contextmanager\ndef _unbounded_int_digits():\n    previous = sys.get_int_max_str_digits()\n"
                      "    sys.set_int_max_str_digits(0)\n    try:\n        yield\n    finally:\n        sys.set_int_max_str_digits(previous)\n\n\nclass TypeTag(StrEnum):")
M2("c15-int-digit-limit-lifted-for-the-encoder-only", "C15", "R15.same-interpreter-settings-both-ways", [
    {"file": "serdes.py", "old": "class TypeTag(StrEnum):", "new": _INT_DIGITS_HELPER},
    {"file": "serdes.py", "old": "        encoded = self._codec.encode(value)\n        wrapped = self._to_json_serializable(encoded)\n        return json.dumps(wrapped, separators=(\",\", \":\"))",
     "new": "        with _unbounded_int_digits():\n            encoded = self._codec.encode(value)\n            wrapped = self._to_json_serializable(encoded)\n            return json.dumps(wrapped, separators=(\",\", \":\"))"},
    {"file": "serdes.py", "old": "        return self._codec.decode(tag, obj[VALUE_TOKEN])", "new": "        with _unbounded_int_digits():\n            return self._codec.decode(tag, obj[VALUE_TOKEN])"}],
   desc="r8_C15: json.loads stays outside")
M2("c15-benign-lock-around-the-encoder-only", "C15", "", [
    {"file": "serdes.py", "old": "        encoded = self._codec.encode(value)\n        wrapped = self._to_json_serializable(encoded)\n        return json.dumps(wrapped, separators=(\",\", \":\"))",
     "new": "        import contextlib\n        with contextlib.nullcontext():\n            encoded = self._codec.encode(value)\n            wrapped = self._to_json_serializable(encoded)\n            return json.dumps(wrapped, separators=(\",\", \":\"))"}],
   expect="silent")
_SUSPEND_FIRST_OLD = ("        with self._decision_lock:\n            if self.counters.should_complete():\n                self._completion_event.set()\n            else:\n"
                      "                suspend_result = self.should_execution_suspend()\n                if suspend_result.should_suspend:\n"
                      "                    self._suspend_exception = suspend_result.exception\n                    self._completion_event.set()\n")
_SUSPEND_FIRST_NEW = ("        with self._decision_lock:\n            suspend_result = self.should_execution_suspend()\n            if suspend_result.should_suspend:\n"
                      "                self._suspend_exception = suspend_result.exception\n                self._completion_event.set()\n"
                      "            elif self.counters.should_complete():\n                self._completion_event.set()\n")
M2("c09-benign-suspend-asked-first-with-second-look", "C09", "", [{"file": "concurrency/executor.py", "old": _SUSPEND_FIRST_OLD, "new": _SUSPEND_FIRST_NEW}], expect="silent",
   desc="seed C09 on the tree after a134671: execute() looks at the policy again, the order of the two questions cannot change the outcome")
M2("c09-suspend-asked-first-without-second-look", "C09", "R5.policy-decision-before-suspension", [
    {"file": "concurrency/executor.py", "old": _SUSPEND_FIRST_OLD, "new": _SUSPEND_FIRST_NEW},
    {"file": "concurrency/executor.py", "old": "                if self._suspend_exception and not decided:", "new": "                if self._suspend_exception:"}],
   desc="seed C09 as it was: a decided operation suspends")

# ---- behind the hooks: bodies the trace models record as events and never look into (probes after round r8) ---------------------------------
M("c07-timed-suspension-lands-in-the-untimed-status", "C07", "R2.transition-lands-where-its-caller-assumes", "concurrency/models.py",
  "        self._status = BranchStatus.SUSPENDED_WITH_TIMEOUT\n        self._suspend_until = timestamp", "        self._status = BranchStatus.SUSPENDED\n        self._suspend_until = timestamp")
M("c07-reset-lands-in-running", "C07", "R2.transition-lands-where-its-caller-assumes", "concurrency/models.py",
  "        self._status = BranchStatus.PENDING\n        self._future = None\n        self._suspend_until = None", "        self._status = BranchStatus.RUNNING\n        self._future = None\n        self._suspend_until = None")
M("c07-untimed-suspension-lands-in-pending", "C07", "R2.transition-lands-where-its-caller-assumes", "concurrency/models.py",
  "        self._status = BranchStatus.SUSPENDED\n        self._suspend_until = None", "        self._status = BranchStatus.PENDING\n        self._suspend_until = None")
M("c07-finished-branches-can-resume", "C07", "R2.transition-lands-where-its-caller-assumes", "concurrency/models.py",
  "        return self._status is BranchStatus.SUSPENDED or (", "        return self._status is BranchStatus.COMPLETED or (")
M("c09-fail-task-counts-a-success", "C09", "R3.booking-method-writes-its-own-counter", "concurrency/models.py",
  "        with self._lock:\n            self.failure_count += 1", "        with self._lock:\n            self.success_count += 1")
M("c09-complete-lands-in-failed", "C09", "R1.transition-lands-in-the-status-its-payload-is-read-from", "concurrency/models.py",
  "        self._is_result_set = True\n        self._status = BranchStatus.COMPLETED", "        self._is_result_set = True\n        self._status = BranchStatus.FAILED")
M("c10-query-consults-the-marked-set-only", "C10", "R6.read-only-query-asks-what-the-guard-asks", "state.py",
  "            if operation_id in self._parent_done or self._has_completed_ancestor(\n                parent_id\n            ):", "            if operation_id in self._parent_done:")
M("c12-ready-taken-for-pending", "C12", "R3.ready-runs-the-attempt", "state.py",
  "        return op.status is OperationStatus.PENDING", "        return op.status in {OperationStatus.PENDING, OperationStatus.READY}")
M("c02-invoke-error-not-copied-from-the-record", "C02", "R2.recorded-outcome-is-read-from-the-operations-own-details", "state.py",
  "                error = invoke_details.error if invoke_details else None", "                error = None")
M("c05-client-truncates-the-batch", "C05", "R5.client-passes-the-call-through", "lambda_service.py",
  "                    Updates=cast(Any, [o.to_dict() for o in updates]),", "                    Updates=cast(Any, [o.to_dict() for o in updates[:100]]),")
M("c05-client-presents-another-token", "C05", "R5.client-passes-the-call-through", "lambda_service.py",
  "                    CheckpointToken=checkpoint_token,\n                    Updates", "                    CheckpointToken=client_token or checkpoint_token,\n                    Updates")
M("c05-benign-client-comprehension-variable", "C05", "", "lambda_service.py",
  "                    Updates=cast(Any, [o.to_dict() for o in updates]),", "                    Updates=cast(Any, [update.to_dict() for update in updates]),", expect="silent")


def _state_output_key(src):
    i = src.index("class StateOutput")
    j = src.index('next_marker=data.get("NextMarker")', i)
    return src[:j] + 'next_marker=data.get("Marker")' + src[j + len('next_marker=data.get("NextMarker")'):]


M2("c20-pagination-marker-read-under-the-request-key", "C20", "R7.wire-keys-exist-in-the-service-model", [{"file": "lambda_service.py", "fn": _state_output_key}])

# ---- from the mutation scan (tools/mutscan.py): survivors of the test-suite nothing had reported ----------------------------------------------
M("c10-completed-context-not-registered", "C10", "R2.mark-on-succeed-and-fail", "state.py",
  "                    self._completed_contexts.add(operation_update.operation_id)\n", "                    pass\n")
M("c06-producer-sees-the-flag-and-enqueues", "C06", "R2.producer-checks-flag-before-put", "state.py",
  "        if self._checkpointing_failed.is_set():\n            # This will raise the stored BackgroundThreadError\n            self._checkpointing_failed.wait()\n",
  "        if self._checkpointing_failed.is_set():\n            # This will raise the stored BackgroundThreadError\n            pass\n")
M("c06-timer-wakes-without-the-error", "C06", "R4.woken-with-the-error", "concurrency/executor.py",
  "                # error to the thread blocked in execute() instead of dying silently\n                self._fatal_exception = e\n",
  "                # error to the thread blocked in execute() instead of dying silently\n")
M("c06-orphaned-nested-executor-not-woken", "C06", "R4.done-callback-routes-every-outcome", "concurrency/executor.py",
  "            # executor runs inside an orphaned branch: unwind it instead of waiting for ever.\n            self._fatal_exception = e\n            self._completion_event.set()\n            return",
  "            # executor runs inside an orphaned branch: unwind it instead of waiting for ever.\n            self._fatal_exception = e\n            return")
M("c05-stopped-consumer-drains-without-releasing", "C05", "R6.stop-releases-queued-waiters", "state.py",
  "                        if item.completion_event:\n                            item.completion_event.set(stopped_error)\n                    except queue.Empty:\n                        break\n\n        logger.debug(\"Background checkpoint processing stopped\")",
  "                        if item.completion_event:\n                            pass\n                    except queue.Empty:\n                        break\n\n        logger.debug(\"Background checkpoint processing stopped\")")
M("c07-timer-reads-the-sequence-number-as-time", "C07", "R4.timer-heap-layout-agrees", "concurrency/executor.py",
  "                    next_resume_time = self._pending_resumes[0][0]", "                    next_resume_time = self._pending_resumes[0][1]")
M("c07-timer-peeks-at-the-second-entry", "C07", "R4.timer-heap-layout-agrees", "concurrency/executor.py",
  "                    next_resume_time = self._pending_resumes[0][0]", "                    next_resume_time = self._pending_resumes[1][0]")
M("c06-overflow-drain-loop-inverted", "C06", "R1.handler-drains-and-wakes", "state.py",
  "                    # overflow 1st: although at this point order not really import any anymore\n                    while not self._overflow_queue.empty():",
  "                    # overflow 1st: although at this point order not really import any anymore\n                    while self._overflow_queue.empty():")


def _negate_suspend_arm_classification(src):
    i = src.index("            except SuspendExecution:")
    tok = "isinstance(bg_error.source_exception, CheckpointError)"
    j = src.index(tok, i)
    return src[:j] + "not " + tok + src[j + len(tok):]


M2("c06-envelope-classification-inverted", "C06", "R5.envelope-opened-by-classification", [{"file": "execution.py", "fn": _negate_suspend_arm_classification}])
M("c06-producer-sees-the-flag-after-put-and-sleeps", "C06", "R2.handshake-producer-recheck-after-put", "state.py",
  "            if self._checkpointing_failed.is_set():\n                self._checkpointing_failed.wait()\n\n            # Wait for completion",
  "            if self._checkpointing_failed.is_set():\n                pass\n\n            # Wait for completion")
M("c09-fail-fast-reported-without-a-failure", "C09", "R3.fail-fast-means-any-failure", "concurrency/models.py",
  "        if completion_config is None:\n            if failure_count > 0:", "        if completion_config is None:\n            if failure_count >= 0:")
M("c17-resumed-invocation-starts-new", "C17", "R3.replay-decision-right-way-round", "execution.py",
  "            replay_status=ReplayStatus.REPLAY\n            if len(invocation_input.initial_execution_state.operations) > 1",
  "            replay_status=ReplayStatus.NEW\n            if len(invocation_input.initial_execution_state.operations) > 1")
M("c17-benign-replay-decision-through-a-local", "C17", "", "execution.py",
  "            replay_status=ReplayStatus.REPLAY\n            if len(invocation_input.initial_execution_state.operations) > 1\n            or invocation_input.initial_execution_state.next_marker\n            else ReplayStatus.NEW,",
  "            replay_status=ReplayStatus.NEW\n            if len(invocation_input.initial_execution_state.operations) <= 1\n            and not invocation_input.initial_execution_state.next_marker\n            else ReplayStatus.REPLAY,",
  expect="silent")
M("c05-stop-drain-loop-inverted", "C05", "R6.stop-releases-queued-waiters", "state.py", "                while not pending.empty():", "                while pending.empty():")
M("c05-stop-release-guard-inverted", "C05", "R6.stop-releases-queued-waiters", "state.py",
  "                        if item.completion_event:\n                            item.completion_event.set(stopped_error)", "                        if not item.completion_event:\n                            item.completion_event.set(stopped_error)")


def _end_inside_start(src):
    old = ('        if (ms := data_copy.get("EndTimestamp")) is not None:\n            data_copy["EndTimestamp"] = TimestampConverter.from_unix_millis(ms)\n')
    assert src.count(old) == 1
    return src.replace(old, '            if (ms := data_copy.get("EndTimestamp")) is not None:\n                data_copy["EndTimestamp"] = TimestampConverter.from_unix_millis(ms)\n')


M2("c20-end-timestamp-decoded-only-with-a-start", "C20", "R4.conversion-depends-on-its-own-presence-only", [{"file": "lambda_service.py", "fn": _end_inside_start}], desc="r8_C20")
M("c06-timer-drops-the-error-while-execute-waits", "C06", "R4.timer-drops-an-error-only-on-the-way-out", "concurrency/executor.py",
  "                if self._completion_event.is_set():\n                    # execute() is returning", "                if not self._completion_event.is_set():\n                    # execute() is returning")
M("c12-overflow-fallback-parity-inverted", "C12", "R4.overflow-fallback-follows-the-product", "waits.py",
  "(config.backoff_rate > 0 or (attempts_made - 1) % 2 == 0)", "(config.backoff_rate > 0 or (attempts_made - 1) % 2 != 0)")
M("c12-retry-delay-dropped-when-retrying", "C12", "R2.decision-implies-effect", "operation/step.py",
  "            delay_seconds = retry_decision.delay_seconds if should_retry else 0", "            delay_seconds = retry_decision.delay_seconds if not should_retry else 0")
M("c06-failure-look-does-not-look", "C06", "R5.failure-look-raises-what-it-finds", "state.py",
  "            try:\n                self._checkpointing_failed.wait()\n            except BackgroundThreadError as bg_error:", "            try:\n                pass\n            except BackgroundThreadError as bg_error:")
M("c20-replay-children-written-when-false", "C20", "R3.emission-guard-withholds-absent-values-only", "lambda_service.py",
  "            if self.context_details.replay_children:\n                context_dict", "            if not self.context_details.replay_children:\n                context_dict")
M("c10-parent-link-not-registered", "C10", "R3.parent-links-are-registered-where-the-walk-reads-them", "state.py",
  "                    self._parent_of[operation_update.operation_id] = (\n                        operation_update.parent_id\n                    )", "                    pass")
M("c07-running-wait-relooks-every-second", "C07", "R1.replayed-wait-parks-until-its-recorded-end", "operation/wait.py",
  "            if resume_at <= now:", "            if not resume_at <= now:")
M("c17-two-record-history-starts-new", "C17", "R3.replay-decision-right-way-round", "execution.py",
  "            if len(invocation_input.initial_execution_state.operations) > 1", "            if len(invocation_input.initial_execution_state.operations) > 2")
M("c09-suspension-raised-whenever-recorded", "C09", "R5.decided-policy-overrules-a-recorded-suspension", "concurrency/executor.py",
  "                if self._suspend_exception and not decided:", "                if self._suspend_exception or not decided:")
M("c09-pool-size-ignores-the-limit", "C09", "R2.pool-bounded-by-max-concurrency", "concurrency/executor.py",
  "        max_workers = self.max_concurrency or len(self.executables)", "        max_workers = self.max_concurrency and len(self.executables)")
M("c09-percentage-divided-by-zero-inputs", "C09", "R3.division-by-a-count-is-guarded", "concurrency/models.py",
  "                    and total_count > 0", "                    and total_count >= 0")
M("c07-resubmission-without-refresh", "C07", "R3.resubmission-refreshes-the-state-first", "concurrency/executor.py",
  "            try:\n                execution_state.create_checkpoint()\n            except BaseException as e:  # noqa: BLE001", "            try:\n                pass\n            except BaseException as e:  # noqa: BLE001")
M("c15-one-token-is-enough-for-an-envelope", "C15", "R4.unwrap-recognises-envelopes", "serdes.py",
  "            case dict() if TYPE_TOKEN in obj and VALUE_TOKEN in obj:", "            case dict() if TYPE_TOKEN in obj or VALUE_TOKEN in obj:")
M("c10-query-never-raises", "C10", "R6.read-only-query-asks-what-the-guard-asks", "state.py",
  "                error_msg = \"Parent context completed, child operation cannot continue\"\n                raise OrphanedChildException(error_msg, operation_id=operation_id)",
  "                error_msg = \"Parent context completed, child operation cannot continue\"")
M("c17-completed-contexts-not-counted", "C17", "R6.boundary-on-small-histories", "state.py",
  "                    if op.operation_type != OperationType.EXECUTION", "                    if op.operation_type != OperationType.CONTEXT")
M("c05-stop-drain-loop-doubly-negated", "C05", "R6.stop-releases-queued-waiters", "state.py", "                while not pending.empty():", "                while (not (not pending.empty())):")
M("c09-decided-call-joins-the-pool", "C09", "R2.decided-call-does-not-join-the-pool", "concurrency/executor.py",
  "            thread_executor.shutdown(wait=False, cancel_futures=True)", "            thread_executor.shutdown(wait=True, cancel_futures=True)")


def _wrapper_returns_none(src):
    i = src.index("            except ExecutionError as e:")
    j = src.index("return answer", i)
    return src[:j] + "return None" + src[j + len("return answer"):]


M2("c18-failed-checkpoint-answer-dropped", "C18", "R2.every-return-site-hands-back-an-answer", [{"file": "execution.py", "fn": _wrapper_returns_none}])


# ----------------------------------------------------------------------------- round 9 (DESIGN 28.15)
M("c19-exit-returns-releases-answer", "C19", "R4.exit-hands-the-holder-its-exception", "threading.py",
  "                for waiter in self._waiters:\n                    waiter.set()\n\n        self.release()",
  "                for waiter in self._waiters:\n                    waiter.set()\n\n        self.release()\n        return exc_type is not None",
  desc="__exit__ answers True after a body that raised: the holder's exception is swallowed")
M("c19-exit-returns-false-twin", "C19", "R4.exit-hands-the-holder-its-exception", "threading.py",
  "                for waiter in self._waiters:\n                    waiter.set()\n\n        self.release()",
  "                for waiter in self._waiters:\n                    waiter.set()\n\n        self.release()\n        return False", expect="silent",
  desc="benign twin: an explicit `return False` propagates the exception just as well")
M("c20-stack-trace-sliced", "C20", "R1.emitted-value-is-the-field-or-its-lossless-image", "lambda_service.py",
  "            result[\"StackTrace\"] = self.stack_trace", "            result[\"StackTrace\"] = self.stack_trace[-64:]")
M("c20-stack-trace-copied-twin", "C20", "R1.emitted-value-is-the-field-or-its-lossless-image", "lambda_service.py",
  "            result[\"StackTrace\"] = self.stack_trace", "            result[\"StackTrace\"] = list(self.stack_trace)", expect="silent",
  desc="benign twin: a copy of the whole list is a lossless image")
M("c05-token-adopted-only-with-updates", "C05", "R5.token-threading", "state.py",
  "                    current_checkpoint_token = output.checkpoint_token", "                    if updates:\n                        current_checkpoint_token = output.checkpoint_token",
  desc="a refresh-only call (no updates) still returns the next token")
M("c05-wire-call-in-a-retry-loop", "C05", "R5.one-wire-call-per-hand-over", "lambda_service.py",
  """            result: CheckpointDurableExecutionResponseTypeDef = (
                self.client.checkpoint_durable_execution(
                    DurableExecutionArn=durable_execution_arn,
                    CheckpointToken=checkpoint_token,
                    Updates=cast(Any, [o.to_dict() for o in updates]),
                    **optional_params,  # type: ignore[arg-type]
                )
            )
""",
  """            for _attempt in (1, 2):
                try:
                    result: CheckpointDurableExecutionResponseTypeDef = (
                        self.client.checkpoint_durable_execution(
                            DurableExecutionArn=durable_execution_arn,
                            CheckpointToken=checkpoint_token,
                            Updates=cast(Any, [o.to_dict() for o in updates]),
                            **optional_params,  # type: ignore[arg-type]
                        )
                    )
                    break
                except ConnectionError:
                    if _attempt == 2:
                        raise
""")
M("c18-only-500-is-a-service-error", "C18", "R3.checkpoint-error-classification-table", "exceptions.py",
  "            and status_code < SERVICE_ERROR\n            and status_code >= BAD_REQUEST_ERROR\n            and status_code != TOO_MANY_REQUESTS_ERROR",
  "            and status_code >= BAD_REQUEST_ERROR\n            and status_code not in (TOO_MANY_REQUESTS_ERROR, SERVICE_ERROR)")
M("c18-classification-rewritten-twin", "C18", "R3.checkpoint-error-classification-table", "exceptions.py",
  "            and status_code < SERVICE_ERROR\n            and status_code >= BAD_REQUEST_ERROR\n            and status_code != TOO_MANY_REQUESTS_ERROR",
  "            and BAD_REQUEST_ERROR <= status_code < SERVICE_ERROR\n            and status_code not in (TOO_MANY_REQUESTS_ERROR,)", expect="silent",
  desc="benign twin: the same table written as a chained comparison and a membership test")
M("c18-stale-token-test-or-to-and", "C18", "R3.checkpoint-error-classification-table", "exceptions.py",
  "                or not (error.get(\"Message\") or \"\").startswith(", "                and not (error.get(\"Message\") or \"\").startswith(")
M("c15-aware-datetime-normalised-to-utc", "C15", "R13.leaf-encoder-renders-the-value-it-was-given", "serdes.py",
  "            case datetime():\n                return EncodedValue(TypeTag.DATETIME, obj.isoformat())",
  "            case datetime():\n                if obj.tzinfo is not None:\n                    obj = obj.astimezone()\n                return EncodedValue(TypeTag.DATETIME, obj.isoformat())")
M("c15-decimal-normalised", "C15", "R13.leaf-encoder-renders-the-value-it-was-given", "serdes.py",
  "EncodedValue(TypeTag.DECIMAL, str(obj))", "EncodedValue(TypeTag.DECIMAL, str(obj.normalize()))")
M("c15-datetime-rendered-through-a-local-twin", "C15", "R13.leaf-encoder-renders-the-value-it-was-given", "serdes.py",
  "            case datetime():\n                return EncodedValue(TypeTag.DATETIME, obj.isoformat())",
  "            case datetime():\n                text = obj.isoformat()\n                return EncodedValue(TypeTag.DATETIME, text)", expect="silent",
  desc="benign twin: the rendering goes through a local")
M("c04-step-config-rebuilt-without-semantics", "C04", "R5.callers-config-reaches-the-executor-whole", "context.py",
  "        if not config:\n            config = StepConfig()\n        operation_id = self._create_step_id()",
  "        if not config:\n            config = StepConfig()\n        else:\n            config = StepConfig(retry_strategy=config.retry_strategy, serdes=config.serdes)\n        operation_id = self._create_step_id()")
M("c04-step-config-copied-whole-twin", "C04", "R5.callers-config-reaches-the-executor-whole", "context.py",
  "        if not config:\n            config = StepConfig()\n        operation_id = self._create_step_id()",
  "        if not config:\n            config = StepConfig()\n        else:\n            config = StepConfig(retry_strategy=config.retry_strategy, step_semantics=config.step_semantics, serdes=config.serdes)\n        operation_id = self._create_step_id()",
  expect="silent", desc="benign twin: a complete copy")
M("c04-executor-gets-a-fresh-config", "C04", "R5.executor-is-handed-the-callers-config", "context.py",
  "            config=config,\n            state=self.state,\n            operation_identifier=OperationIdentifier(\n                operation_id=operation_id,\n                parent_id=self._parent_id,\n                name=step_name,",
  "            config=StepConfig(retry_strategy=config.retry_strategy),\n            state=self.state,\n            operation_identifier=OperationIdentifier(\n                operation_id=operation_id,\n                parent_id=self._parent_id,\n                name=step_name,")


def _failure_drain_guard_true(src):
    i = src.index("                    while not self._overflow_queue.empty():")
    j = src.index("                            if item.completion_event:", i)
    return src[:j] + "                            if True:" + src[j + len("                            if item.completion_event:"):]


def _stop_drain_guard_true(src):
    i = src.index("            for pending in (self._overflow_queue, self._checkpoint_queue):")
    j = src.index("                        if item.completion_event:", i)
    return src[:j] + "                        if True:" + src[j + len("                        if item.completion_event:"):]


M2("c06-failure-drain-wakes-a-missing-event", "C06", "R1", [{"file": "state.py", "fn": _failure_drain_guard_true}],
   desc="mutscan 4: a fire-and-forget update in the overflow queue has no completion event; None.set() ends the failure handler half-way through")
M2("c05-stop-drain-wakes-a-missing-event", "C05", "R6", [{"file": "state.py", "fn": _stop_drain_guard_true}])
M("c13-every-poll-one-second-later", "C13", "R3.decision-implies-effect", "operation/wait_for_condition.py",
  "            if delay_seconds is not None and delay_seconds < 1:", "            if delay_seconds is not None:",
  desc="mutscan 4: the clamp applies to every decided delay")
M("c07-running-wait-full-duration-subtracted", "C07", "R1.replayed-wait-parks-until-its-recorded-end", "operation/wait.py",
  "            resume_at = min(scheduled_end, now + datetime.timedelta(seconds=self.seconds))", "            resume_at = min(scheduled_end, now - datetime.timedelta(seconds=self.seconds))",
  desc="mutscan 4: the bound lies in the past, so a running wait re-looks every second")
M("c07-running-wait-bound-written-the-other-way-twin", "C07", "R1.replayed-wait-parks-until-its-recorded-end", "operation/wait.py",
  "            resume_at = min(scheduled_end, now + datetime.timedelta(seconds=self.seconds))", "            resume_at = min(datetime.timedelta(seconds=self.seconds) + now, scheduled_end)",
  expect="silent", desc="benign twin: operands exchanged")
M("c09-counters-total-and-minimum-exchanged", "C09", "R3.counters-receive-the-configured-thresholds", "concurrency/executor.py",
  "            len(executables),\n            min_successful,\n            tolerated_failure_count,", "            min_successful,\n            len(executables),\n            tolerated_failure_count,",
  desc="mutscan 4: arguments exchanged; equal under the default policy")
M("c09-counters-by-keyword-twin", "C09", "R3.counters-receive-the-configured-thresholds", "concurrency/executor.py",
  "            len(executables),\n            min_successful,\n            tolerated_failure_count,\n            tolerated_failure_percentage,",
  "            min_successful=min_successful,\n            total_tasks=len(executables),\n            tolerated_failure_count=tolerated_failure_count,\n            tolerated_failure_percentage=tolerated_failure_percentage,",
  expect="silent", desc="benign twin: the same binding by keyword, in another order")
M("c09-counters-store-crossed", "C09", "R3.counters-receive-the-configured-thresholds", "concurrency/models.py",
  "        self.total_tasks: int = total_tasks\n        self.min_successful: int = min_successful", "        self.total_tasks: int = min_successful\n        self.min_successful: int = total_tasks")


def _track_replay_without_status_test(src):
    i = src.index("                    if op.operation_type != OperationType.EXECUTION\n                    and op.status\n                    in {")
    j = src.index("}", i)
    return src[:i] + "                    if op.operation_type != OperationType.EXECUTION\n" + src[j + 1:]


M2("c17-every-recorded-operation-counts-as-completed", "C17", "R6.boundary-on-small-histories", [{"file": "state.py", "fn": _track_replay_without_status_test}],
   desc="mutscan 4: the status conjunct of the completed set dropped (used to end as exit 2: test not recognised)")
M("c17-check-function-logger-built-on-a-logger", "C17", "R1.derived-logger-carries-the-execution-state", "operation/wait_for_condition.py",
  "                        execution_state=self.state,\n                        op_id=self.operation_identifier,\n                        attempt=attempt,",
  "                        execution_state=self.context_logger,\n                        op_id=self.operation_identifier,\n                        attempt=attempt,",
  desc="mutscan 5: one attribute of self taken for another")
M("c06-pool-error-stored-in-the-wrong-slot", "C06", "R4", "concurrency/executor.py",
  "                    # started): nobody would ever run it, so end the operation with that error\n                    self._fatal_exception = e",
  "                    # started): nobody would ever run it, so end the operation with that error\n                    self.executables = e",
  desc="mutscan 5: one attribute of self taken for another - execute() is woken and finds no error")
