"""Mutation self-test of the checkers (DESIGN.md section 24).

Each mutant is an edit of a scratch copy of /repo/src (never of /repo) that breaks one
structural clause; the owning check must exit 1 and name the expected rule.  Benign
variants must leave the check at exit 0.  Results are informational for the thorough
tier (they test the checker, not the repository) and fatal in `python -m selftest.runner`.
"""

from __future__ import annotations

import json
import os
import shutil
import subprocess
import sys
import tempfile
from concurrent.futures import ThreadPoolExecutor
from pathlib import Path

VERIF = Path(__file__).resolve().parent.parent
PKG_REL = Path("src") / "aws_durable_execution_sdk_python"


def _repo() -> Path:
    return Path(os.environ.get("VERIF_REPO", "/repo"))


def apply_mutant(m: dict, dst_repo: Path) -> str | None:
    """Returns None on success or a reason why the mutant does not apply to this tree."""
    for edit in m["edits"]:
        p = dst_repo / PKG_REL / edit["file"]
        if not p.exists():
            return f"file {edit['file']} missing"
        src = p.read_text()
        if "fn" in edit:
            new = edit["fn"](src)
            if new is None or new == src:
                return f"edit function did not apply in {edit['file']}"
        else:
            if src.count(edit["old"]) != 1:
                return f"anchor text occurs {src.count(edit['old'])}x in {edit['file']}"
            new = src.replace(edit["old"], edit["new"])
        try:
            compile(new, str(p), "exec")
        except SyntaxError as e:
            return f"mutant does not compile: {e}"
        p.write_text(new)
    return None


def run_one(m: dict) -> dict:
    import time
    t0 = time.time()
    try:
        r = _run_one(m)
    except subprocess.TimeoutExpired:
        # a mutant on which the analysis does not finish in time is reported, it does not abort the whole run
        r = {"id": m["id"], "status": "MISS", "rc": "timeout", "tail": "the check did not finish within the selftest time limit"}
    r["secs"] = round(time.time() - t0, 1)
    return r


def _run_one(m: dict) -> dict:
    tmp = Path(tempfile.mkdtemp(prefix="verif-mut-"))
    try:
        dst = tmp / "repo"
        (dst / "src").mkdir(parents=True)
        shutil.copytree(_repo() / PKG_REL, dst / PKG_REL)
        why = apply_mutant(m, dst)
        if why:
            return {"id": m["id"], "status": "skipped", "why": why}
        env = dict(os.environ, VERIF_REPO=str(dst), VERIF_EVIDENCE_DIR=str(tmp / "ev"),
                   VERIF_REPLAY_DIR=str(tmp / "replay"), VERIF_TIER="quick")
        if m["property"] == "ALL":
            # benign variant: every check must stay silent
            rcs, outs = [], []
            for i in range(1, 21):
                r = subprocess.run([sys.executable, "-m", f"checks.c{i:02d}", "--no-selftest"], cwd=VERIF, env=env,
                                   capture_output=True, text=True, timeout=int(os.environ.get('VERIF_SELFTEST_TIMEOUT', '900')))
                if r.returncode != 0 or "VIOLATION" in r.stdout:
                    rcs.append(r.returncode)
                    outs.append((r.stdout + r.stderr)[-700:])
            ok = not rcs
            return {"id": m["id"], "status": "ok" if ok else "MISS", "rc": rcs, "tail": "\n".join(outs)}
        mod = f"checks.{m['property'].lower()}"
        r = subprocess.run([sys.executable, "-m", mod, "--no-selftest"], cwd=VERIF, env=env,
                           capture_output=True, text=True, timeout=int(os.environ.get('VERIF_SELFTEST_TIMEOUT', '900')))
        out = r.stdout + r.stderr
        expect_fire = m.get("expect", "fire") == "fire"
        if expect_fire:
            ok = r.returncode == 1 and "VIOLATION" in out and (m.get("rule", "") in out)
        else:
            ok = r.returncode == 0 and "VIOLATION" not in out
        return {"id": m["id"], "status": "ok" if ok else "MISS", "rc": r.returncode,
                "tail": "" if ok else out[-1500:]}
    finally:
        shutil.rmtree(tmp, ignore_errors=True)


def run(mutants: list[dict], jobs: int = 16) -> list[dict]:
    with ThreadPoolExecutor(max_workers=jobs) as ex:
        return list(ex.map(run_one, mutants))


def run_for(pid: str, ck=None) -> int:
    """Thorough tier hook: run this property's mutants; informational."""
    from selftest.mutants import MUTANTS

    ms = [m for m in MUTANTS if m["property"] == pid]
    res = run(ms)
    n_ok = sum(1 for r in res if r["status"] == "ok")
    n_skip = sum(1 for r in res if r["status"] == "skipped")
    miss = [r for r in res if r["status"] == "MISS"]
    print(f"[{pid}] selftest: {len(ms)} checker mutants, {n_ok} behaved as expected, {n_skip} not applicable to this tree, {len(miss)} missed")
    for r in miss:
        print(f"SELFTEST-MISS {pid} {r['id']} rc={r['rc']}")
    # fold into the evidence file of the real run
    evp = Path(os.environ.get("VERIF_EVIDENCE_DIR", VERIF / "evidence")) / f"{pid}.json"
    if evp.exists():
        ev = json.loads(evp.read_text())
        ev["tier"] = "thorough"
        ev["coverage"]["selftest"] = {"mutants": len(ms), "as_expected": n_ok, "not_applicable": n_skip,
                                      "missed": [r["id"] for r in miss],
                                      "ids": [r["id"] for r in res]}
        evp.write_text(json.dumps(ev, indent=1))
    return 0


if __name__ == "__main__":
    from selftest.mutants import MUTANTS

    sel = sys.argv[1:]
    ms = [m for m in MUTANTS if not sel or m["property"] in sel or m["id"] in sel]
    res = run(ms)
    bad = 0
    for r in res:
        if r.get("secs", 0) > (400 if r["id"].startswith("benign") else 90):
            print(f"SLOW {r['id']} {r['secs']}s")
        if r["status"] != "ok":
            bad += r["status"] == "MISS"
            print(r["id"], r["status"], r.get("why", ""), r.get("tail", "")[-800:])
    print(f"{len(res)} mutants: {sum(1 for r in res if r['status']=='ok')} ok, "
          f"{sum(1 for r in res if r['status']=='skipped')} skipped, {bad} missed")
    sys.exit(1 if bad else 0)
